#!/venv/bin/python
"""Writes the committed, minimised replay files of the OPEN known findings
(/verif/findings/<id>/...) from hand-minimised records and checks that each
reproduces its signature on the current tree."""
import os, sys
os.environ.setdefault('PYTHONHASHSEED', '0')
VERIF = os.path.dirname(os.path.dirname(os.path.abspath(__file__)))
sys.dont_write_bytecode = True
sys.path.insert(0, VERIF); sys.path.insert(0, os.environ.get('VERIF_REPO', '/repo'))
from sim import core


def job(blocks, **kw):
    d = {'op': 'JOB', 'cls': 'article', 'packages': [], 'blocks': blocks, 'cut': None, 'renderer': 'HTML5',
         'split': 2, 'theme': 'default', 'dt': 1}
    d.update(kw)
    return d


FINDINGS = [
    ('C17', 'register-state.json', 'C17|state|register|plasTeX.Base.TeX.Parameters:parindent.value',
     {'property': 'C17', 'seed': 1, 'swarm': {'scrub': False, 'base': 'minimal', 'exec_ref': False, 'hashseed': 1},
      'ops': [job(['reg_parindent'])]}),
    ('C17', 'register-output.json', 'C17|output|xml|register-values',
     {'property': 'C17', 'seed': 2, 'swarm': {'scrub': False, 'base': 'minimal', 'exec_ref': False, 'hashseed': 1},
      'ops': [job(['reg_parindent']), job(['probe_ifdim'])]}),
    ('C17', 'beamer-state.json', 'C17|state|class-setting|plasTeX.Base.LaTeX.Lists:itemize.args',
     {'property': 'C17', 'seed': 3, 'swarm': {'scrub': False, 'base': 'minimal', 'exec_ref': False, 'hashseed': 1},
      'ops': [job(['textbf'], cls='beamer')]}),
    ('C17', 'coltype-state.json', 'C17|state|class-setting|plasTeX.Base.LaTeX.Arrays:ColumnType.columnTypes',
     {'property': 'C17', 'seed': 6, 'swarm': {'scrub': False, 'base': 'minimal', 'exec_ref': False, 'hashseed': 1},
      'ops': [job(['prog_coltype_right'])]}),
    ('C04', 'decl-in-own-env.json', 'C04|tex|decl-in-own-env',
     {'property': 'C04', 'seed': 7, 'swarm': {'transports': ['tex'], 'declenv': True},
      'ops': [{'op': 'DECLENV', 'name': 'small', 'same': True}]}),
    ('C04', 'global-prefix-def.json', 'C04|tex|global-prefix|def',
     {'property': 'C04', 'seed': 4, 'swarm': {'transports': ['tex'], 'global_prefix': True},
      'ops': [{'op': 'OPEN', 'kind': 'brace'}, {'op': 'DEF_GLOBAL', 'name': 'na', 'id': 7}, {'op': 'CLOSE'}, {'op': 'PROBE', 'what': 'na'}]}),
    ('C04', 'global-prefix-let.json', 'C04|tex|global-prefix|let',
     {'property': 'C04', 'seed': 5, 'swarm': {'transports': ['tex'], 'global_prefix': True},
      'ops': [{'op': 'OPEN', 'kind': 'brace'}, {'op': 'LET', 'dst': 'na', 'src': 'nb', 'global': True}, {'op': 'CLOSE'}, {'op': 'PROBE', 'what': 'na'}]}),
]


def main():
    rc = 0
    for pid, fname, sig, record in FINDINGS:
        prop = core.load_prop(pid)
        if hasattr(prop, 'prepare'):
            prop.prepare()
        res = core.execute_guarded(prop, record)
        got = [v for v in res['violations'] if v['sig'] == sig]
        if not got:
            print('NOT REPRODUCED', sig, [v['sig'] for v in res['violations']])
            rc = 1
            continue
        d = os.path.join(VERIF, 'findings', pid)
        path = core.write_replay(pid, record, sig, got[0]['detail'], core.DEFAULT_SEED, 0, directory=d)
        os.replace(path, os.path.join(d, fname))
        print('wrote', os.path.join(d, fname))
    return rc


if __name__ == '__main__':
    sys.exit(main())
