#!/bin/bash
# try_seed.sh <seed-id> <PID> [extra verify args]
# Runs the property's check against the seeded breakage /verif/seeded/<id>/patch.diff.
# Default: on a scratch copy of /repo (VERIF_REPO), so that background runs using /repo are not disturbed.
# With SEED_IN_REPO=1: git -C /repo apply; run; git -C /repo checkout -- .   (the way the checks are meant to be used)
set -u
ID=$1; PID=$2; shift 2
OUT=/tmp/seed_out_$ID
if [ "${SEED_IN_REPO:-0}" = "1" ]; then
  cd /repo || exit 2
  git diff --quiet || { echo "/repo is dirty"; exit 2; }
  git apply /verif/seeded/$ID/patch.diff || { echo "patch does not apply"; exit 2; }
  trap 'git -C /repo checkout -- . ; find /repo -name __pycache__ -prune -exec rm -rf {} + 2>/dev/null' EXIT
  REPO=/repo
else
  REPO=/tmp/seedrepo_$ID
  rm -rf $REPO; rsync -a --exclude .git --exclude __pycache__ --exclude buildir /repo/ $REPO/
  (cd $REPO && patch -s -p1 < /verif/seeded/$ID/patch.diff) || { echo "patch does not apply"; rm -rf $REPO; exit 2; }
  trap 'rm -rf $REPO' EXIT
fi
VERIF_REPO=$REPO VERIF_OUT=$OUT VERIF_MAX_REPORT=2 timeout 3000 /venv/bin/python /verif/bin/verify $PID "$@" 2>&1 | grep -v simpleTAL | cut -c1-700 | tail -12
echo "exit=${PIPESTATUS[0]}"
