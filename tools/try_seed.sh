#!/bin/bash
# try_seed.sh <seed-id> <PID> [extra verify args]  -- applies /verif/seeded/<id>/patch.diff to /repo, runs the property's check
# (evidence/replays redirected to /tmp/seed_out_<id>), and undoes the patch straight afterwards.
set -u
ID=$1; PID=$2; shift 2
cd /repo || exit 2
git diff --quiet || { echo "/repo is dirty"; exit 2; }
git apply /verif/seeded/$ID/patch.diff || { echo "patch does not apply"; exit 2; }
trap 'git -C /repo checkout -- . ; find /repo -name __pycache__ -prune -exec rm -rf {} + 2>/dev/null' EXIT
VERIF_OUT=/tmp/seed_out_$ID VERIF_MAX_REPORT=2 timeout 3000 /venv/bin/python /verif/bin/verify $PID "$@" 2>&1 | grep -v simpleTAL | cut -c1-700 | tail -12
echo "exit=${PIPESTATUS[0]}"
