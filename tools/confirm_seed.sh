#!/bin/bash
# confirm_seed.sh <seed-id> <PID> <worktree>   -- confirms a sub-agent breakage in its scratch worktree:
#  demo passes without the change, fails with it; baseline test suite still passes with it; then stores it under /verif/seeded/<seed-id>/
set -u
ID=$1; PID=$2; WT=$3
cd $WT || exit 2
git diff -- plasTeX > /tmp/seed_$ID.diff
[ -s /tmp/seed_$ID.diff ] || { echo "no diff"; exit 2; }
DEMO=$(ls demo_*.py | head -1)
echo "== demo WITH change"; timeout 600 /venv/bin/python $DEMO > /tmp/seed_$ID.with.log 2>&1; W=$?; tail -3 /tmp/seed_$ID.with.log; echo "exit=$W"
git apply -R /tmp/seed_$ID.diff     # (git stash is shared by all worktrees of a repository: never use it here)
echo "== demo WITHOUT change"; timeout 600 /venv/bin/python $DEMO > /tmp/seed_$ID.without.log 2>&1; WO=$?; tail -2 /tmp/seed_$ID.without.log; echo "exit=$WO"
git apply /tmp/seed_$ID.diff
echo "== pytest WITH change"; timeout 1800 /venv/bin/python -m pytest -q -p no:cacheprovider --timeout=900 --basetemp=/tmp/bt_$ID > /tmp/seed_$ID.pytest.log 2>&1; tail -1 /tmp/seed_$ID.pytest.log
/venv/bin/python -c "import plasTeX; print(plasTeX.__file__)"
rm -rf /tmp/bt_$ID
if [ $W -ne 0 ] && [ $WO -eq 0 ] && grep -q "360 passed" /tmp/seed_$ID.pytest.log; then
  mkdir -p /verif/seeded/$ID
  cp /tmp/seed_$ID.diff /verif/seeded/$ID/patch.diff
  cp $DEMO /verif/seeded/$ID/
  echo "CONFIRMED $ID"
else
  echo "NOT CONFIRMED $ID (with=$W without=$WO)"
fi
