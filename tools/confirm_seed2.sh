#!/bin/bash
# confirm_seed2.sh <seed-id> <worktree> <diff-file> <demo-file>
# Confirms one of several sub-agent breakages left as diff files in a (reverted) scratch worktree:
#  demo exits 0 without the change and non-zero with it; the baseline test suite still has 360 passes with it;
#  then stores patch + demo under /verif/seeded/<seed-id>/ and leaves the worktree reverted.
set -u
ID=$1; WT=$2; DIFF=$3; DEMO=$4
cd $WT || exit 2
git diff --quiet -- plasTeX || { echo "worktree not reverted"; git diff --stat -- plasTeX; exit 2; }
[ -s $DIFF ] || { echo "no diff"; exit 2; }
echo "== demo WITHOUT change"; timeout 600 /venv/bin/python $DEMO > /tmp/seed_$ID.without.log 2>&1; WO=$?; tail -2 /tmp/seed_$ID.without.log; echo "exit=$WO"
git apply $DIFF || { echo "diff does not apply"; exit 2; }
echo "== demo WITH change"; timeout 600 /venv/bin/python $DEMO > /tmp/seed_$ID.with.log 2>&1; W=$?; tail -3 /tmp/seed_$ID.with.log; echo "exit=$W"
echo "== pytest WITH change"; timeout 1800 /venv/bin/python -m pytest -q -p no:cacheprovider --timeout=900 --basetemp=/tmp/bt_$ID > /tmp/seed_$ID.pytest.log 2>&1; tail -1 /tmp/seed_$ID.pytest.log
rm -rf /tmp/bt_$ID
git apply -R $DIFF
find $WT -name __pycache__ -prune -exec rm -rf {} + 2>/dev/null
if [ $W -ne 0 ] && [ $WO -eq 0 ] && grep -q "360 passed" /tmp/seed_$ID.pytest.log; then
  mkdir -p /verif/seeded/$ID
  cp $DIFF /verif/seeded/$ID/patch.diff
  cp $DEMO /verif/seeded/$ID/
  echo "CONFIRMED $ID"
else
  echo "NOT CONFIRMED $ID (with=$W without=$WO)"
fi
