#!/usr/bin/env python3
"""Writes /verif/MANIFEST.json from the table below (kept in one place so the
commands, levels and N/A reasons cannot drift apart)."""
import json, os

V = '/venv/bin/python /verif/bin/verify'
BASE = ("cd /repo && /venv/bin/python -m pytest -ra -q -p no:cacheprovider --timeout=900 "
        "--continue-on-collection-errors --junitxml=/tmp/plastex_baseline_off.junit.xml")

CHECKS = {}

def check(pid, category, text, note, technique, design_ref):
    CHECKS[pid] = {
        'property_id': pid,
        'quick_cmd': '%s %s --tier quick' % (V, pid),
        'thorough_cmd': '%s %s --tier thorough' % (V, pid),
        'evidence_file': '/verif/evidence/%s.json' % pid,
        'replay_cmd_template': '%s %s --replay {path}' % (V, pid),
        'engine': 'plastex-dst',
        'level_claimed': {'category': category, 'text': text, 'design_ref': design_ref},
        'level_note': note,
        'technique': technique,
    }

check('C15', 'exploration',
      'Seeded search over request histories (NEW + <=12 REQUEST) against a reference model of the '
      'documented template grammar, checked request by request, plus history checks (no duplicate, '
      'no reserved name) and bounded liveness by a deterministic fuel counter. Sampling, not proof.',
      'Trusted: the ~100-line reference model in sim/props/c15.py (admits a set of outcomes where the '
      'statement is silent: namespace seen by later alternatives after a collision; constructor vs '
      'first-call initial namespace). Normal form: history ends at the first ERROR; static names use '
      'only constructor variables and $num; static-only templates end in a variable-free name. No '
      'fault/schedule dimension exists for this property: only the sequential core of the technique applies.',
      'deterministic simulation (seeded operation histories vs executable reference model, minimised replay); empty fault space',
      'DESIGN.md 5.7')

check('C06', 'exploration',
      'Seeded search over DOM edit histories (<=40 ops over a pool of <=24 nodes: elements, equal-content text '
      'nodes, fragments, fragments in fragments, attribute-held fragments) against a list-of-lists model; after '
      'every op parent links, owner documents, child order and every derived view the statement names are '
      'compared. On top, a bounded EXHAUSTIVE part: every enabled sequence of 2 (quick) / 3 (thorough; 4 below 48 seeded '
      'two-op prefixes) concrete edit operations over a six-node pool (root, 2 elements, 2 equal text nodes, a two-child '
      'fragment). Beyond that bound: sampling, not proof (lengths 1-5 get half of the seeded runs). Also: setParent=False '
      'containers (BORROW), detached fragments as receivers of every editing operation, and a parsed-tree part - catalogue, '
      'block, corpus and random-bag documents go through the real parser and the finished tree must satisfy the same link '
      'invariants, before and after its derived views (fullTitle, tocEntry, ...) are read.',
      'Trusted: the list model in sim/props/c06.py. Normal form: arguments are detached subtree roots or fresh '
      'fragments (the statement\'s premise), never an ancestor of the target; spent fragments are not reused; '
      'attribute fragments are installed as plasTeX.TeX does (fragment.parentNode = holder) and not edited '
      'afterwards; fragments are transparent (a fragment child may name the fragment or the fragment\'s parent). '
      'No fault/schedule dimension exists for this property: only the sequential core of the technique applies.',
      'deterministic simulation (seeded operation histories vs executable reference model, minimised replay); empty fault space',
      'DESIGN.md 5.6')

check('C20', 'fault_enumeration',
      'Every job is a simulated process lifetime running the real plasTeX.client.main path over an interposed '
      'real directory. Seeded sequences of RUN / RUN+crash / CORRUPT / EDIT across 2-3 documents and 2 renderers '
      'are checked op by op against a reference model of what each .paux may hold (never blocks, round trip, per '
      'renderer, at worst absent, heals) and end with a bounded-recovery check; on top, dense enumeration per '
      'sampled workload: every SimFS event of the .paux window x tear offsets (crash between truncate and write, '
      'mid-write at byte offsets, before close), every truncation point, single-bit flips, zero tails and seeded '
      'multi-bit flips of a saved file through the three readers (Context.restore, xr, Context.persist). Injected I/O errors '
      '(ENOSPC/EIO/EACCES on the n-th open or write, short write included) are a further fault kind: the run must go on. '
      'Further scenarios: label files in other directories (--paux-dirs, equal job names, damaged part files, names with blanks, '
      'given on the command line or in a configuration file), a renderer selected by path, one object with two labels, a label '
      'name shared by all documents, documents without labels, xr in each option form x every kind of labelled object.',
      'Trusted: the .paux content model in sim/props/c20.py; SimFS flushes what was written before the kill, so a '
      'crash leaves old content, new content or a strict prefix (power-loss reordering below write() is not '
      'modelled; plasTeX never fsyncs). After bit flips / zero tails only "never blocks" and "heals" are asserted '
      '(no checksum in the format). xr is exercised only with HTML5/XHTML (Text/ManPage cannot render xr dict labels '
      'even fault-free). Dense sweeps are exhaustive per sampled file in thorough, strided in quick.',
      'deterministic simulation with fault injection: fork-per-lifetime, SimFS crash/tear injection, idle corruption, reference model, ddmin replay',
      'DESIGN.md 5.1')

check('C17', 'exploration',
      'One simulated interpreter lifetime processes a seeded history of jobs A1..Ak;B (k<=4; each job the real '
      'plasTeX.client.main path into its own output directory, clock jumping between jobs, sources possibly cut at '
      'a seeded offset). Every job of the history is compared with the same job processed alone in a fresh lifetime '
      '(forked pristine parent, or exec\'d interpreter under another PYTHONHASHSEED) at the same simulated instant: '
      'toXML and every written file must agree up to generated identifiers (V1); after every completed job the '
      'tracked interpreter-wide parsing state must equal its pristine value in the categories the statement names (V2). The '
      'generator draws from every package that loads offline (84), 9 document classes, ~150 blocks (state writers/readers, 28 '
      'environment families, 15 constructs left open at end of input) and per-job command-line extras; 30 % of the histories are '
      'macro-fuzz jobs (bags of synthesised invocations of 1105 Base.LaTeX / package macros); "programs" load user packages '
      'through --packages-dirs; the plasTeX manual (18 input files) is processed before and after other documents. Enumerated '
      'next to the seeded histories: writer/reader pairs per state family and per topic, every opener at end of input, every '
      'command-line extra with/without, all ordered pairs of the corpus. Three OPEN findings (register values on shared classes; '
      'beamer\'s import-time patches of 31 shared classes; the class-level column-type registry) are reported as KNOWN-FINDING.',
      'Trusted: the block catalogue of the document generator and the curated attribute-name list that decides which '
      'class attributes count as parsing state (switches, trackers, register values, class-level macro settings); other '
      'drifts are reported as probes (untracked_drift) and only V1 can see their effect. Jobs that raise are outside '
      'the premise and cut the history. Sampling of histories, not proof.',
      'deterministic simulation: job histories inside one forked interpreter lifetime vs fresh-lifetime reference; EOF-cut faults, simulated clock jumps, hash-seed variation',
      'DESIGN.md 5.2')

check('C13', 'exploration',
      'Seeded (document, configuration) pairs; every piece of body text is a unique marker whose owning sectioning unit '
      'the generator knows. The job is rendered in three simulated settings - fresh forked lifetime; exec\'d/forked '
      'lifetime with another PYTHONHASHSEED, permuted listdir/glob/walk results, jumped clock, other cwd and output '
      'directory, empty template path; and the dirty directory left behind by E0 after another configuration of the same '
      'document and unrelated documents were processed in the same lifetime - and only the job\'s own writes (SimFS write '
      'log) are judged: exact expected partition of markers into files with document order and footnotes last, issued '
      'names distinct and clean, names and marker->file map identical in all three settings. Renderers HTML5 (two themes), '
      'XHTML and Text; parts, abstract, table of contents, appendix; footnote shapes (\\footnotetext with and without mark, '
      'in quotes, identical texts); tables wide enough to be folded by the Text renderer (head markers ordered, tail markers counted); hyperref target/link-only paragraphs; templates with explicit extensions, repeated static names, labels colliding with '
      'template-formed names, and without a numbered fail-safe alternative (then the run must end with the generator\'s error).',
      'Trusted: the generator\'s marker/level bookkeeping (LaTeX nesting by level) and html.parser text extraction. Normal '
      'form: template literals contain no bad-chars other than an explicit .html extension; a raw % in bad-chars is doubled on the command line (option values are %-interpolated). The '
      'input x configuration product is sampled; what simulation adds is the run-independence / environment / dirty-directory dimension.',
      'deterministic simulation: three simulated process lifetimes per case (fork, exec with other hash seed and permuted listings, dirty-directory history), SimFS write-log oracle',
      'DESIGN.md 5.3')

check('C09', 'exploration',
      'From one multiset of events (numbered objects of 24 kinds - headings numbered, starred and beyond sec-num-depth, equations, '
      'display rows, items, floats with the caption in or outside an inner environment, theorems sharing or nesting counters - '
      'with their labels, \\ref/\\pageref, dangling references) '
      'a seeded scheduler produces P delivery orders (4 quick / 12 thorough): every reference is placed before, inside or '
      'after its target, several pending on one label. Each order is delivered over two transports (bare Context API with '
      'stub nodes; the schedule compiled to LaTeX and parsed by the real TeX). Per order: exact target identity, dangling '
      'references resolve to no object, identifiers distinct, nothing left pending; over the recorded history of all orders: '
      'confluence (one resolution map, one printed number per reference); printed numbers are compared with the generator\'s own '
      'count. Enumerated: book / report documents with 11-21 chapters and an appendix.',
      'Trusted: generator bookkeeping of which marker carries which label. Normal form: unique labels, at most one per '
      'object, objects keep their relative order across orders (only reference positions move); references around (not '
      'inside) display math. '
      'Only ORDER is simulated here: no file, clock or process fault exists for this property.',
      'deterministic simulation: seeded delivery orders of label/reference events, confluence check over the recorded history, two transports',
      'DESIGN.md 5.4')

check('C04', 'exploration',
      'Seeded balanced histories (<=40 ops, nesting <=6) of OPEN/CLOSE over 8 group kinds ({}, \\begingroup, center, quote, '
      '$ $, tabular cells, \\textbf/\\mbox arguments) mixed with local/global definitions, \\let, \\catcode, \\newif setters '
      'and counter steps, refined step by step against a frame-stack reference model over two transports: the Context API '
      '(depth, every name, catcode, switch and counter compared after every op) and the same history compiled to TeX source '
      'and parsed by the real TeX (textContent of probe markers, final stack depth). Declarations (\\small, \\itshape: frames '
      'that only the enclosing closer pops) and real command objects are part of the histories. On top, a bounded EXHAUSTIVE '
      'part on the API transport: every sequence of 4 (quick) / 6 (thorough) operations over a 12-letter alphabet. Enumerated '
      'sweeps: a local definition / alias / catcode change inside the argument or body of every Base.LaTeX macro (catalogue, 166 '
      'macros, dimension arguments in seven spellings); the locals sweep (74 macro classes that nest macro classes, four class '
      'orders); user-defined and undefined environments; packages loaded inside groups; names that start undefined. Two OPEN '
      'findings (\\global prefix; a declaration inside its own environment form) are reported as KNOWN-FINDING.',
      'Trusted: the ~60-line frame-stack model and the TeX-transport compiler. Normal form of the TeX transport (each rule keeps '
      'a lexer look-ahead artefact - C01/C05 matters - out of this check): \\catcode`\\@=N\\relax; every PROBE preceded by a '
      'one-letter marker; no catcode op inside an argument group; $ followed by a blank (no accidental $$). \\gdef writes the '
      'bottom frame and may be shadowed by a live local definition. No fault/schedule dimension exists for this property: only '
      'the sequential core of the technique applies; the statement\'s "exhaustive up to a bound" part is approximated by '
      'short histories getting a large share of the runs.',
      'deterministic simulation (seeded operation histories vs executable reference model over API and TeX-source transports, minimised replay); empty fault space',
      'DESIGN.md 5.5')

NA = [
 ('C01', 'pure function of (text, catcode table): no schedule, clock, fault or history in the statement; would need a second lexer as oracle (differential testing, another family)'),
 ('C02', 'pure function of the macro program; oracle would be an independent TeX expander (differential testing)'),
 ('C03', 'pure function of the program; oracle would be an independent evaluator of TeX conditionals'),
 ('C05', 'pure function of (signature, call text); its only process-wide state (parameter-enable counter) is covered as history dependence under C17'),
 ('C07', 'pure function of one document; no interleaving, fault or history dimension'),
 ('C08', 'deterministic running computation over a single document; oracle would be a model of LaTeX numbering (property-based testing, not simulation)'),
 ('C10', 'pure function of one document'),
 ('C11', 'pure function of one document'),
 ('C12', 'pure function of (document, renderer configuration)'),
 ('C14', 'pure function of (document, renderer configuration); the stale-file subtlety is owned by C13\'s write log'),
 ('C16', 'pure function of (defaults, file contents, argv); the statement says nothing about missing, unreadable or torn files'),
 ('C18', 'pure function of the index-entry multiset'),
 ('C19', 'pure function of the expression'),
]

def main():
    order = ['C04', 'C06', 'C09', 'C13', 'C15', 'C17', 'C20']
    m = {
        'version': 1,
        'setup_cmd': '%s setup' % V,
        'hooks': {
            'guard': 'PLASTEX_VERIF',
            'enable': 'no source hook exists: every seam (open/os/glob/shutil/time/datetime/subprocess) is '
                      'taken over by rebinding module attributes inside forked/exec\'d simulated process '
                      'lifetimes; PLASTEX_VERIF is reserved and read by nothing in /repo',
            'baseline_off_cmd': BASE,
            'source_commits': [],
            'add_only': True,
        },
        'engines': [{
            'name': 'plastex-dst', 'path': '/verif/sim',
            'serves_properties': [p for p in order if p in CHECKS],
            'kind_free_text': 'home-grown deterministic simulator: seeded run records, fork/exec process '
                              'lifetimes over an interposed real directory (SimFS), simulated clock and '
                              'environment, reference-model oracles, ddmin shrinking, replay files',
        }],
        'checks': [CHECKS[p] for p in order if p in CHECKS],
        'not_applicable': [{'property_id': p, 'reason': r} for p, r in NA],
        'notes': 'Exit codes: 0 held, 1 VIOLATION (minimised replay reproduced in a fresh interpreter), '
                 '2 harness error (never a verdict). Fixed defects and open findings: known_findings.json. '
                 'VERIF_RUNS / VERIF_WORKERS / VERIF_SEED override budgets.',
    }
    path = os.path.join(os.path.dirname(os.path.dirname(os.path.abspath(__file__))), 'MANIFEST.json')
    with open(path, 'w') as f:
        json.dump(m, f, indent=1)
        f.write('\n')

if __name__ == '__main__':
    main()
