"""Demonstration for fix 7d2621d (run with /venv/bin/python; exits 0 on the repaired tree).

1. article + natbib: the bibliography is a section-level unit (as on the pinned tree; fix 3170fef had made it
   chapter-level, because natbib's own class replaced the document-local subclass of the article class).
2. book + natbib[sectionbib] followed by book + natbib in the same interpreter: the second document's
   bibliography is chapter-level again (the option used to write the level into the shared Base class).
"""
import os, sys, tempfile
from plasTeX.TeX import TeX


def level(cls, opt):
    src = ('\\documentclass{%s}\\usepackage%s{natbib}\\begin{document}\\section{One}text\\bibliography{nofile}\\end{document}'
           % (cls, opt))
    os.chdir(tempfile.mkdtemp())
    t = TeX()
    t.input(src)
    doc = t.parse()
    return doc.getElementsByTagName('bibliography')[0].level


got = [level('article', ''), level('book', ''), level('book', '[sectionbib]'), level('book', ''), level('article', '')]
print(got)
sys.exit(0 if got == [1, 0, 1, 0, 1] else 1)
