"""Catalogue of generic macro invocations (C17's macro-fuzz mode, C04's catalogue sweep).

Every Command / Environment class of plasTeX.Base.LaTeX (the user-level macros)
gets one invocation synthesised from its `args` template; each candidate is
parsed and rendered once, alone, in a forked child (2 s alarm) and kept only if
that completes.  The catalogue is built once in prepare() and inherited by the
workers; records carry the generated LaTeX text itself, so a replay does not
depend on the catalogue.
"""
import os
import pickle
import re
import signal
import sys

SKIP = set('''input include includeonly InputIfFileExists IfFileExists documentclass usepackage RequirePackage begin end
document csname endcsname expandafter def gdef edef xdef let futurelet newcommand renewcommand providecommand newenvironment
renewenvironment newtheorem newcounter newlength newif verb verbatim endverbatim item bibitem bye endinput relax par
DeclareRobustCommand DeclareMathOperator makeatletter makeatother catcode active char chardef mathchardef openout closeout
write immediate loop repeat noexpand the number romannumeral uppercase lowercase string jobname tableofcontents listoffigures
listoftables printindex makeindex bibliography bibliographystyle appendix maketitle title author date thanks frontmatter
mainmatter backmatter part chapter section subsection subsubsection paragraph subparagraph label ref pageref cite nocite
setcounter addtocounter stepcounter refstepcounter setlength addtolength settowidth settoheight settodepth pagestyle
thispagestyle pagenumbering numberwithin ProcessOptions LoadClass PassOptionsToPackage NeedsTeXFormat ProvidesPackage
ProvidesClass AtBeginDocument AtEndDocument newsavebox sbox savebox usebox global long outer protected left right
multicolumn hline cline vline tabularnewline noalign omit span cr crcr halign valign'''.split())


def synth(name, args, is_env, n, dimen='{2pt}'):
    """-> LaTeX text or None if the template is not one we synthesise for."""
    toks = re.findall(r'\[[^\]]*\]|\([^)]*\)|<[^>]*>|\S+', args or '')
    out = ''
    for t in toks:
        if t == '*':
            continue
        if t[0] in '[(<':
            continue                      # optional arguments are left out
        if t == '=':
            out += '='
            continue
        if t in ('self',):
            out += '{w%d}' % n if not is_env else ''
            continue
        typ = t.split(':', 1)[1] if ':' in t else 'default'
        typ = typ.lower()
        if typ in ('number', 'int', 'integer'):
            out += '3 '
        elif typ in ('dimen', 'length', 'dimension', 'glue', 'skip', 'mudimen', 'muglue'):
            out += dimen
        elif typ in ('cs',):
            out += '\\fzmacro '
        elif typ in ('tok', 'xtok', 'token', 'chr', 'char'):
            out += 'x'
        elif typ in ('id', 'label', 'idref', 'ref'):
            out += '{fzl1}'
        elif typ in ('url',):
            out += '{http://u.example/}'
        elif typ in ('dict',):
            out += '{a=b}'
        elif typ in ('list',):
            out += '{a,b}'
        elif typ in ('args', 'any'):
            return None
        else:
            out += '{w%d}' % n
    if is_env:
        return '\\begin{%s}%s body%d \\end{%s}' % (name, out, n, name)
    return '\\%s%s' % (name, out)


def _candidates(packages=()):
    """-> [(name, args, is_env, package or None)]"""
    import importlib
    import pkgutil
    import plasTeX
    import plasTeX.Base          # noqa
    L = sys.modules['plasTeX.Base.LaTeX']      # (the attribute plasTeX.Base.LaTeX is the \\LaTeX logo class)
    out = []
    seen = set()
    mods = [('plasTeX.Base.LaTeX.' + x.name, None) for x in sorted(pkgutil.iter_modules(L.__path__), key=lambda m: m.name)]
    mods += [('plasTeX.Packages.' + p.replace('-', '_'), p) for p in packages]
    for modname, pkg in mods:
        try:
            mod = importlib.import_module(modname)
        except Exception:
            continue            # (Entities.py is a stand-alone generator script, not a module of macros)
        if pkg is not None:
            seen = set()        # (a package may redefine a base macro: that is worth having)
        for cname, cls in sorted(vars(mod).items()):
            if not (isinstance(cls, type) and issubclass(cls, plasTeX.Macro) and cls.__module__ == mod.__name__):
                continue
            name = getattr(cls, 'macroName', None) or cname
            if not isinstance(name, str) or not re.match(r'^[A-Za-z]+\*?$', name) or name.rstrip('*') in SKIP or name in seen:
                continue
            if name.startswith(('if', 'end', 'the', 'new', 'renew', 'provide', 'Declare')):
                continue
            if issubclass(cls, (plasTeX.ParameterCommand, plasTeX.TheCounter, plasTeX.NewIf, plasTeX.IfTrue, plasTeX.IfFalse)):
                continue
            seen.add(name)
            is_env = issubclass(cls, plasTeX.Environment)
            out.append((name, getattr(cls, 'args', '') or '', is_env, pkg))
    return out


def _alarm(signum, frame):
    raise TimeoutError()


def _build_in_child(packages=()):
    from plasTeX.TeX import TeX
    ok = []
    signal.signal(signal.SIGALRM, _alarm)
    for k, (name, args, is_env, pkg) in enumerate(_candidates(packages)):
        text = synth(name, args, is_env, k)
        if text is None:
            continue
        src = '\\documentclass{article}%s\\begin{document}\\section{S}\\label{fzl1} A %s B.\\end{document}' % (
            '\\usepackage{%s}' % pkg if pkg else '', text)
        try:
            signal.alarm(2)
            t = TeX()
            t.input(src)
            d = t.parse()
            d.toXML()
            signal.alarm(0)
            ok.append([name, text, args, is_env, pkg])
        except BaseException:
            signal.alarm(0)
    return ok


def build(packages=()):
    """Runs in a forked child so that the parent stays pristine (parsing fills per-class caches).
    -> [[name, text, args, is_env, package or None], ...]"""
    r, w = os.pipe()
    pid = os.fork()
    if pid == 0:
        try:
            os.close(r)
            dn = os.open(os.devnull, os.O_WRONLY)
            os.dup2(dn, 1)
            os.dup2(dn, 2)
            data = pickle.dumps(_build_in_child(packages))
            os.write(w, data)
        finally:
            os._exit(0)
    os.close(w)
    chunks = []
    while True:
        b = os.read(r, 1 << 20)
        if not b:
            break
        chunks.append(b)
    os.close(r)
    os.waitpid(pid, 0)
    try:
        return pickle.loads(b''.join(chunks))
    except Exception:
        return []
