"""Core of the deterministic simulator: seeds, run records, the parallel
runner, shrinking, replay files, known findings and evidence.

One integer (VERIF_SEED) decides everything.  A *run* is materialised as a JSON
record by ``prop.generate(seed, tier)`` and only then executed by
``prop.execute(record)``; execution never draws from a PRNG, so replay is a pure
function of (record, code) and every sub-list of ``record['ops']`` is again a
valid run (closed under deletion), which is what makes ddmin effective.

Nothing in here reads a real clock except to report wall time / to bound a
batch; no verdict depends on it.
"""
import fnmatch
import hashlib
import importlib
import json
import multiprocessing
import os
import random
import signal
import subprocess
import sys
import time
import traceback
from concurrent.futures import ProcessPoolExecutor, as_completed

VERIF = os.path.dirname(os.path.dirname(os.path.abspath(__file__)))
OUT = os.environ.get('VERIF_OUT', VERIF)        # where evidence/ and replays/ go (self-tests redirect it)
REPO = os.environ.get('VERIF_REPO', '/repo')
DEFAULT_SEED = 20260925
PYTHON = '/venv/bin/python'

EXIT_OK, EXIT_VIOLATION, EXIT_HARNESS = 0, 1, 2


class HarnessError(Exception):
    """Something went wrong in the machinery (never a verdict)."""


# --------------------------------------------------------------------------
# seeds

def h64(*parts):
    m = hashlib.blake2b(digest_size=8)
    for p in parts:
        m.update(str(p).encode('utf-8', 'surrogatepass'))
        m.update(b'|')
    return int.from_bytes(m.digest(), 'big')


def _canon(obj):
    """JSON-able canonical form: dict keys become strings (foreign label files can hold any key type)."""
    if isinstance(obj, dict):
        return dict(((k if isinstance(k, str) else 'k:' + repr(k)), _canon(v)) for k, v in obj.items())
    if isinstance(obj, (list, tuple)):
        return [_canon(x) for x in obj]
    if isinstance(obj, (set, frozenset)):
        return sorted(repr(x) for x in obj)
    return obj


def _plain_repr(o):
    try:
        return ''.join(str(o)) if isinstance(o, str) else repr(o)
    except Exception:
        return '<unrepresentable %s>' % type(o).__name__


def hexdigest(obj):
    """Stable digest of a JSON-able object."""
    s = json.dumps(_canon(obj), sort_keys=True, separators=(',', ':'), default=repr)
    return hashlib.blake2b(s.encode('utf-8', 'surrogatepass'), digest_size=8).hexdigest()


def run_seed(prop, base_seed, index):
    return h64(prop, base_seed, index)


class Rngs(object):
    """Named, independent PRNG streams derived from one run seed: adding a draw
    to one stream never shifts another (keeps generated runs stable)."""

    def __init__(self, seed):
        self.seed = seed
        self._streams = {}

    def __call__(self, name):
        r = self._streams.get(name)
        if r is None:
            r = self._streams[name] = random.Random(h64(self.seed, name))
        return r


# --------------------------------------------------------------------------
# property modules

PROPS = {
    'C04': 'sim.props.c04',
    'C06': 'sim.props.c06',
    'C09': 'sim.props.c09',
    'C13': 'sim.props.c13',
    'C15': 'sim.props.c15',
    'C17': 'sim.props.c17',
    'C20': 'sim.props.c20',
}


def load_prop(pid):
    if pid not in PROPS:
        raise HarnessError('unknown property %s' % pid)
    return importlib.import_module(PROPS[pid])


def empty_result():
    return {
        'violations': [],      # [{'sig': str, 'detail': ...}]
        'digest': '',          # digest of what was executed (ops + fired faults)
        'log_digest': '',      # digest of the complete event log (determinism test)
        'nontrivial': False,
        'probes': {},          # rare-condition counters (never a verdict)
        'faults_fired': {},
        'faults_configured': {},
        'states': [],          # 64-bit ints: distinct abstract model states reached
        'sim_time': 0.0,
        'steps': 0,
    }


# --------------------------------------------------------------------------
# tree identity

def tree_identity():
    try:
        head = subprocess.run(['git', '-C', REPO, 'rev-parse', 'HEAD'], capture_output=True,
                              text=True, timeout=30).stdout.strip()
        diff = subprocess.run(['git', '-C', REPO, 'diff', 'HEAD'], capture_output=True,
                              timeout=30).stdout
        return {'repo': REPO, 'head': head,
                'diff_sha': hashlib.sha1(diff).hexdigest() if diff else None}
    except Exception as e:  # scratch copies without .git
        return {'repo': REPO, 'head': None, 'diff_sha': None, 'note': repr(e)}


# --------------------------------------------------------------------------
# known findings

def load_known():
    path = os.path.join(VERIF, 'known_findings.json')
    if not os.path.exists(path):
        return []
    with open(path) as f:
        return json.load(f)['findings']


def match_known(known, pid, sig):
    """Return the open finding entry that lists this signature, else None.
    'fixed' entries suppress nothing."""
    for e in known:
        if e.get('property') != pid or e.get('status') != 'open':
            continue
        pats = [e['signature']] if 'signature' in e else []
        pats += e.get('signatures', [])
        if any(fnmatch.fnmatchcase(sig, p) for p in pats):
            return e
    return None


# --------------------------------------------------------------------------
# worker side

_TIMEOUT_S = int(os.environ.get('VERIF_RUN_TIMEOUT', '120'))


class _RunTimeout(Exception):
    pass


def _alarm(signum, frame):
    raise _RunTimeout()


def execute_guarded(prop, record, timeout=None):
    """Execute one record; harness exceptions are classified apart from
    violations and are never turned into a verdict."""
    old = signal.signal(signal.SIGALRM, _alarm)
    signal.alarm(timeout or getattr(prop, 'RUN_TIMEOUT', _TIMEOUT_S))
    try:
        return prop.execute(record)
    finally:
        signal.alarm(0)
        signal.signal(signal.SIGALRM, old)


def _forked_batch(*args):
    """Runs _worker_batch in a forked child of this pool worker and ships the result back through a pipe, so
    that whatever the batch leaves behind in memory dies with the child.  (plasTeX keeps whole documents alive
    through uncollectable cycles - e.g. \\newif names its generated class with the EscapeSequence token, which
    refers to the document - about 350 kB per parsed document; a long thorough batch would otherwise exhaust
    the machine's memory.)"""
    import pickle
    r, w = os.pipe()
    pid = os.fork()
    if pid == 0:
        status = 1
        try:
            os.close(r)
            data = pickle.dumps(_worker_batch(*args), protocol=4)
            view = memoryview(data)
            while view:
                n = os.write(w, view[:1 << 16])
                view = view[n:]
            status = 0
        except BaseException:
            try:
                os.write(w, pickle.dumps({'__error__': traceback.format_exc()[-3000:]}))
            except Exception:
                pass
        finally:
            os._exit(status)
    os.close(w)
    chunks = []
    while True:
        b = os.read(r, 1 << 20)
        if not b:
            break
        chunks.append(b)
    os.close(r)
    _, st = os.waitpid(pid, 0)
    if not chunks:
        raise HarnessError('batch child died with status %s' % os.waitstatus_to_exitcode(st))
    out = pickle.loads(b''.join(chunks))
    if '__error__' in out:
        raise HarnessError('batch child failed: %s' % out['__error__'])
    return out


def _worker_batch(pid, base_seed, tier, indices, want_samples, records=None):
    """indices: run indices to generate+execute; records: already materialised
    (index, record) pairs from the property's deterministic enumeration."""
    prop = load_prop(pid)
    given = dict(records or [])
    indices = list(indices) + sorted(given)
    out = {
        'n': 0, 'viol': [], 'digests': [], 'probes': {}, 'faults_fired': {},
        'faults_configured': {}, 'states': set(), 'sim_time': 0.0, 'steps': 0,
        'samples': [], 'errors': [], 'logdig': {},
    }
    for i in indices:
        seed = run_seed(pid, base_seed, i)
        try:
            if i in given:
                record = given[i]
                seed = record.get('seed', seed)
            else:
                record = prop.generate(seed, tier)
            record['index'] = i
            res = execute_guarded(prop, record)
        except _RunTimeout:
            out['errors'].append({'index': i, 'seed': seed, 'error': 'timeout'})
            continue
        except Exception:
            out['errors'].append({'index': i, 'seed': seed, 'error': traceback.format_exc()[-2000:]})
            continue
        out['n'] += 1
        out['sub_n'] = out.get('sub_n', 0) + res.get('sub_evaluations', 0)
        out['sub_distinct'] = out.get('sub_distinct', 0) + res.get('sub_distinct', 0)
        out['logdig'][i] = res['log_digest']
        if res['nontrivial']:
            out['digests'].append(int(res['digest'][:16], 16) if isinstance(res['digest'], str) else res['digest'])
        for k in ('probes', 'faults_fired', 'faults_configured'):
            for name, v in res[k].items():
                out[k][name] = out[k].get(name, 0) + v
        out['states'].update(res['states'])
        out['sim_time'] += res['sim_time']
        out['steps'] += res['steps']
        if res['violations']:
            # plain data only (a detail may carry a DOM Text or token whose document cannot be pickled)
            plain = json.loads(json.dumps(_canon(res['violations']), default=_plain_repr))
            out['viol'].append({'index': i, 'seed': seed, 'record': record, 'violations': plain})
        if want_samples and len(out['samples']) < want_samples:
            if res['nontrivial'] or i == indices[0]:
                out['samples'].append(_clip_sample(record))
    out['states'] = list(out['states'])
    return out


def _clip_sample(record, limit=6000):
    s = json.dumps(record, sort_keys=True, default=repr)
    if len(s) <= limit:
        return record
    r = dict(record)
    ops = list(r.get('ops', []))
    while ops and len(json.dumps(r, default=repr)) > limit:
        ops = ops[:max(1, len(ops) // 2)] if len(ops) > 1 else []
        r['ops'] = ops + [{'op': '...clipped'}]
        if len(ops) <= 1:
            break
    if len(json.dumps(r, default=repr)) > limit:
        r = {'property': record.get('property'), 'seed': record.get('seed'),
             'clipped': json.dumps(record, sort_keys=True, default=repr)[:limit]}
    return r


# --------------------------------------------------------------------------
# shrinking (ddmin over ops, then property-specific simplification)

def _signatures(prop, record):
    try:
        res = execute_guarded(prop, record)
    except _RunTimeout:
        return set()
    except Exception:
        return set()
    return set(v['sig'] for v in res['violations'])


def shrink(prop, record, sig, budget=400):
    """Minimise `record` while the same violation signature persists."""
    used = [0]

    def still(rec):
        if used[0] >= budget:
            return False
        used[0] += 1
        return sig in _signatures(prop, rec)

    def with_ops(ops):
        r = dict(record_cur[0])
        r['ops'] = ops
        return r

    record_cur = [record]
    ops = list(record.get('ops', []))
    # ddmin
    n = 2
    while len(ops) >= 2 and used[0] < budget:
        chunk = max(1, len(ops) // n)
        reduced = False
        for start in range(0, len(ops), chunk):
            cand = ops[:start] + ops[start + chunk:]
            if cand and still(with_ops(cand)):
                ops = cand
                n = max(n - 1, 2)
                reduced = True
                break
        if not reduced:
            if chunk == 1:
                break
            n = min(len(ops), n * 2)
    record_cur[0] = with_ops(ops)
    # single-op removal to a fixpoint (ddmin with chunk 1 stops at first miss)
    changed = True
    while changed and used[0] < budget:
        changed = False
        for k in range(len(record_cur[0]['ops']) - 1, -1, -1):
            cand = record_cur[0]['ops'][:k] + record_cur[0]['ops'][k + 1:]
            if still(with_ops(cand)):
                record_cur[0] = with_ops(cand)
                changed = True
    # property specific simplifications
    simplify = getattr(prop, 'simplify', None)
    if simplify:
        changed = True
        while changed and used[0] < budget:
            changed = False
            for cand in simplify(record_cur[0]):
                if used[0] >= budget:
                    break
                if still(cand):
                    record_cur[0] = cand
                    changed = True
                    break
    return record_cur[0], used[0]


def sig8(sig):
    return hashlib.blake2b(sig.encode(), digest_size=4).hexdigest()


def write_replay(pid, record, sig, detail, base_seed, shrink_execs, directory=None):
    d = directory or os.path.join(OUT, 'replays', pid)
    os.makedirs(d, exist_ok=True)
    path = os.path.join(d, '%s-%s.json' % (record.get('seed'), sig8(sig)))
    with open(path, 'w') as f:
        json.dump(_canon({'property': pid, 'signature': sig, 'detail': detail, 'record': record,
                          'verif_seed': base_seed, 'shrink_executions': shrink_execs,
                          'tree': tree_identity()}), f, indent=1, sort_keys=True, default=_plain_repr)
        f.write('\n')
    return path


def replay_in_fresh_interpreter(pid, path):
    """Replays the file in a new interpreter; returns True iff it reproduces
    the recorded signature there."""
    env = dict(os.environ)
    env['PYTHONHASHSEED'] = '0'
    p = subprocess.run([PYTHON, os.path.join(VERIF, 'bin', 'verify'), pid, '--replay', path,
                        '--quiet-replay'], capture_output=True, text=True, env=env, timeout=1800)
    return 'REPLAY reproduced=yes' in p.stdout, p.stdout + p.stderr


def do_replay(pid, path, quiet=False):
    prop = load_prop(pid)
    with open(path) as f:
        rp = json.load(f)
    sig = rp['signature']
    res = execute_guarded(prop, rp['record'], timeout=1800)
    got = [v for v in res['violations'] if v['sig'] == sig]
    known = match_known(load_known(), pid, sig)
    if got:
        print('REPLAY reproduced=yes signature=%s' % sig)
        if not quiet:
            print(json.dumps(got[0]['detail'], indent=1, default=repr)[:4000])
            if known:
                print('KNOWN-FINDING: property=%s %s' % (pid, known['what']))
            else:
                print('VIOLATION property=%s replay=%s' % (pid, path))
        return EXIT_VIOLATION
    others = sorted(set(v['sig'] for v in res['violations']))
    print('REPLAY reproduced=no signature=%s other_signatures=%s' % (sig, others))
    return EXIT_OK


# --------------------------------------------------------------------------
# evidence

def validate_evidence(ev):
    """Minimal built-in validator (the /venv interpreter has no jsonschema)."""
    for k in ('property_id', 'tier', 'seed', 'level', 'coverage', 'wall_s'):
        if k not in ev:
            raise HarnessError('evidence lacks %s' % k)
    c = ev['coverage']
    if not (isinstance(c.get('evaluations'), int) and c['evaluations'] >= 1):
        raise HarnessError('evidence: evaluations')
    if not (isinstance(c.get('distinct_nontrivial'), int) and c['distinct_nontrivial'] >= 2):
        raise HarnessError('evidence: distinct_nontrivial < 2 (%r)' % c.get('distinct_nontrivial'))
    if not isinstance(c.get('rule'), str) or not c.get('samples'):
        raise HarnessError('evidence: rule/samples')


def write_evidence(pid, ev):
    d = os.path.join(OUT, 'evidence')
    os.makedirs(d, exist_ok=True)
    path = os.path.join(d, '%s.json' % pid)
    tmp = path + '.tmp'
    with open(tmp, 'w') as f:
        json.dump(ev, f, indent=1, sort_keys=True, default=repr)
        f.write('\n')
    os.replace(tmp, path)
    return path


# --------------------------------------------------------------------------
# the runner

STATE_CAP = 2000000


def run_check(pid, tier, base_seed, runs=None, workers=None, wall_cap=None):
    prop = load_prop(pid)
    t0 = time.monotonic()
    meta = prop.META
    print('VERIF_SEED=%d property=%s tier=%s repo=%s' % (base_seed, pid, tier, REPO))
    sys.stdout.flush()
    if hasattr(prop, 'prepare'):
        prop.prepare()
    runs = runs or int(os.environ.get('VERIF_RUNS', 0)) or meta['runs'][tier]
    workers = workers or int(os.environ.get('VERIF_WORKERS', 0)) or min(16, os.cpu_count() or 1)
    wall_cap = wall_cap or int(os.environ.get('VERIF_WALL_CAP', 0)) or meta.get('wall_cap', {}).get(tier, 3000)
    batch = meta.get('batch', {}).get(tier, 50)
    known = load_known()

    agg = {'n': 0, 'probes': {}, 'faults_fired': {}, 'faults_configured': {},
           'sim_time': 0.0, 'steps': 0}
    digests, states = set(), set()
    samples, errors, viols = [], [], []
    saturated = False
    capped = False
    batches = [list(range(s, min(s + batch, runs))) for s in range(0, runs, batch)]
    ctx = multiprocessing.get_context('fork')
    ex = ProcessPoolExecutor(max_workers=workers, mp_context=ctx)
    task = _forked_batch if meta.get('fork_batches') else _worker_batch
    try:
        futs = {}
        for bi, b in enumerate(batches):
            futs[ex.submit(task, pid, base_seed, tier, b, 2 if bi < 4 else 0)] = b
        n_enum = 0
        if hasattr(prop, 'enumerate_cases'):
            cases = prop.enumerate_cases(base_seed, tier)
            n_enum = len(cases)
            ebatch = meta.get('enum_batch', {}).get(tier, batch)
            for s0 in range(0, len(cases), ebatch):
                recs = [(runs + j, cases[j]) for j in range(s0, min(s0 + ebatch, len(cases)))]
                futs[ex.submit(task, pid, base_seed, tier, [], 1 if s0 == 0 else 0, recs)] = recs
        pending = set(futs)
        for fut in as_completed(pending, timeout=wall_cap + 600):
            try:
                out = fut.result()
            except Exception:
                errors.append({'error': 'worker died: ' + traceback.format_exc()[-1500:]})
                continue
            agg['n'] += out['n']
            agg['sub_n'] = agg.get('sub_n', 0) + out.get('sub_n', 0)
            agg['sub_distinct'] = agg.get('sub_distinct', 0) + out.get('sub_distinct', 0)
            for k in ('probes', 'faults_fired', 'faults_configured'):
                for name, v in out[k].items():
                    agg[k][name] = agg[k].get(name, 0) + v
            agg['sim_time'] += out['sim_time']
            agg['steps'] += out['steps']
            if len(digests) < STATE_CAP:
                digests.update(out['digests'])
            else:
                saturated = True
            if len(states) < STATE_CAP:
                states.update(out['states'])
            else:
                saturated = True
            samples.extend(out['samples'])
            errors.extend(out['errors'])
            viols.extend(out['viol'])
            if time.monotonic() - t0 > wall_cap:
                capped = True
                for f in pending:
                    f.cancel()
                break
    finally:
        ex.shutdown(wait=True, cancel_futures=True)

    # ---- judge violations
    status = EXIT_OK
    by_sig = {}
    for v in sorted(viols, key=lambda v: (v.get('index', -1))):
        for viol in v['violations']:
            by_sig.setdefault(viol['sig'], []).append((v, viol))
    known_hit, reported = [], []
    lines = []
    for sig in sorted(by_sig):
        entry = match_known(known, pid, sig)
        if entry is not None:
            known_hit.append({'signature': entry.get('signature') or entry.get('group') or entry['signatures'][0], 'what': entry['what'],
                              'hits': len(by_sig[sig])})
            continue
        reported.append(sig)
    seen_known = set()
    for k in known_hit:
        if k['signature'] not in seen_known:
            seen_known.add(k['signature'])
            lines.append('KNOWN-FINDING: property=%s %s' % (pid, k['what']))
    max_report = int(os.environ.get('VERIF_MAX_REPORT', '4'))
    nondeterministic = []
    for sig in reported[:max_report]:
        # prefer the smallest failing record as shrink start
        cands = sorted(by_sig[sig], key=lambda t: len(json.dumps(t[0]['record'], default=repr)))
        v, viol = cands[0]
        small, used = shrink(prop, v['record'], sig, budget=meta.get('shrink_budget', 400))
        res = execute_guarded(prop, small)
        det = [x['detail'] for x in res['violations'] if x['sig'] == sig]
        if not det:   # shrinking lost it (flaky) -> fall back to the original
            small, det = v['record'], [viol['detail']]
        path = write_replay(pid, small, sig, det[0], base_seed, used)
        ok, outp = replay_in_fresh_interpreter(pid, path)
        if ok:
            lines.append('VIOLATION property=%s replay=%s' % (pid, path))
            lines.append('  signature: %s' % sig)
            lines.append('  detail: %s' % json.dumps(det[0], default=repr)[:1500])
            status = EXIT_VIOLATION
        else:
            nondeterministic.append(sig)
            lines.append('HARNESS-ERROR nondeterministic property=%s signature=%s replay=%s'
                         % (pid, sig, path))
            lines.append(outp[-1500:])
    if len(reported) > max_report and status == EXIT_OK:
        status = EXIT_VIOLATION         # unlisted violations exist even if none was minimised
    if len(reported) > max_report:
        lines.append('  (%d further distinct violation signatures not minimised: %s)'
                     % (len(reported) - max_report, reported[max_report:max_report + 10]))
    if nondeterministic and status == EXIT_OK:
        status = EXIT_HARNESS

    # ---- harness errors never become a pass
    if errors:
        lines.append('HARNESS-ERROR %d run(s) failed in the harness; first: %s'
                     % (len(errors), json.dumps(errors[0], default=repr)[:3000]))
        if status == EXIT_OK:
            status = EXIT_HARNESS
    if agg['n'] == 0 and status == EXIT_OK:
        status = EXIT_HARNESS
        lines.append('HARNESS-ERROR no run executed')

    wall = time.monotonic() - t0
    cov = {
        'evaluations': agg['n'] + agg.get('sub_n', 0),
        'distinct_nontrivial': len(digests) + agg.get('sub_distinct', 0),
        'records_executed': agg['n'],
        'dense_sweep_cases': agg.get('sub_n', 0),
        'dense_sweep_distinct': agg.get('sub_distinct', 0),
        'rule': meta['rule'],
        'samples': samples[:4],
        'exhaustive': False,
        'runs_requested': runs,
        'enumerated_cases': n_enum,
        'runs_executed': agg['n'],
        'runs_per_hour': int(agg['n'] / wall * 3600) if wall > 0 else 0,
        'seeds': {'verif_seed': base_seed, 'first_index': 0, 'last_index': runs - 1,
                  'derivation': 'blake2b("{prop}|{VERIF_SEED}|{i}")[:8]'},
        'simulated_time_s': agg['sim_time'],
        'steps': agg['steps'],
        'faults_fired': agg['faults_fired'],
        'faults_configured': agg['faults_configured'],
        'probes': agg['probes'],
        'distinct_states': len(states),
        'distinct_counts_saturated': saturated,
        'wall_capped': capped,
        'components': meta['components'],
        'known_findings_hit': known_hit,
        'violation_signatures': reported,
        'workers': workers,
    }
    for name in ('determinism', 'sensitivity'):
        try:
            fn = 'determinism_%s.json' % pid if name == 'determinism' else 'sensitivity.json'
            with open(os.path.join(VERIF, 'evidence', fn)) as f:
                data = json.load(f)
            if name == 'determinism':
                cov['determinism_selftest'] = {'seeds_checked': data.get('seeds_checked'), 'mismatches': data.get('mismatches'),
                                              'conditions': data.get('conditions'), 'source': 'evidence/' + fn + ' (bin/verify selftest-determinism)'}
            else:
                mine = [r for r in data.get('results', []) if r.get('property') == pid]
                cov['sensitivity_selftest'] = {'mutants': len(mine), 'caught': sum(1 for r in mine if r.get('verdict') == 'caught'),
                                              'source': 'evidence/sensitivity.json (bin/verify selftest-sensitivity)'}
        except Exception:
            pass
    zero = sorted(k for k, v in agg['probes'].items() if v == 0)
    for name in meta.get('probe_names', []):
        if agg['probes'].get(name, 0) == 0 and name not in zero:
            zero.append(name)
    if zero:
        cov['probes_stuck_at_zero'] = zero
        lines.append('WARNING probes stuck at zero: %s' % ', '.join(zero))
    ev = {
        'property_id': pid, 'tier': tier, 'seed': base_seed, 'level': meta['level'],
        'coverage': cov, 'assumptions': meta['assumptions'], 'wall_s': round(wall, 2),
        'violations': len(reported),
    }
    try:
        validate_evidence(ev)
    except HarnessError as e:
        lines.append('HARNESS-ERROR evidence invalid: %s' % e)
        if status == EXIT_OK:
            status = EXIT_HARNESS
    write_evidence(pid, ev)
    for ln in lines:
        print(ln)
    print('%s %s: runs=%d distinct_nontrivial=%d states=%d violations=%d known=%d wall=%.1fs exit=%d'
          % (pid, tier, cov['evaluations'], cov['distinct_nontrivial'], len(states),
             len(reported), len(known_hit), wall, status))
    return status
