"""Simulated process lifetimes, SimClock, SimFS, SimEnv.

A *lifetime* is a forked child of a pristine parent (clock seam installed,
plasTeX imported, nothing processed) - or, when another interpreter is the
point, an exec'd `/venv/bin/python sim/worker.py` with its own PYTHONHASHSEED.
Only the disk (a real directory tree under a per-run temp root, reached through
the SimFS interposer) outlives a lifetime.  A crash is os._exit(77) from inside
SimFS at the planned event, after the torn prefix of the in-flight write has
been put on disk.

No hook in /repo is needed: Python's module namespaces are the seam.
"""
import builtins
import glob as _glob
import io
import json
import os
import pickle
import select
import shutil
import signal
import subprocess
import sys
import time as _time
import traceback

from . import core

CRASH_STATUS = 77
T0 = 1790000000.0          # simulated instant at which every interpreter "starts" (2026-09-21)

_real = {
    'open': builtins.open, 'remove': os.remove, 'unlink': os.unlink, 'makedirs': os.makedirs,
    'mkdir': os.mkdir, 'listdir': os.listdir, 'walk': os.walk, 'chdir': os.chdir,
    'glob': _glob.glob, 'rename': os.rename, 'replace': os.replace,
    'copy': shutil.copy, 'copy2': shutil.copy2, 'copyfile': shutil.copyfile,
    'time': _time.time, 'strftime': _time.strftime, 'localtime': _time.localtime,
    'gmtime': _time.gmtime, 'Popen': subprocess.Popen,
}


# --------------------------------------------------------------------------
# SimClock

class SimClock(object):
    now = T0
    installed = False
    reads = 0


def install_clock():
    """Must run before plasTeX is imported: Base/TeX/Parameters.py reads the
    clock at import time and binds `datetime.datetime` by name."""
    if SimClock.installed:
        return
    import datetime as _dt
    os.environ['TZ'] = 'UTC'
    _time.tzset()
    real_datetime = _dt.datetime

    class SimDateTime(real_datetime):
        @classmethod
        def now(cls, tz=None):
            SimClock.reads += 1
            return cls.fromtimestamp(SimClock.now, tz)

        @classmethod
        def today(cls):
            return cls.now()

        @classmethod
        def utcnow(cls):
            SimClock.reads += 1
            return cls.utcfromtimestamp(SimClock.now)

    class SimDate(_dt.date):
        @classmethod
        def today(cls):
            SimClock.reads += 1
            return cls.fromtimestamp(SimClock.now)

    SimDateTime.__name__ = 'datetime'
    SimDate.__name__ = 'date'
    _dt.datetime = SimDateTime
    _dt.date = SimDate

    def sim_time():
        SimClock.reads += 1
        return SimClock.now

    def sim_gmtime(secs=None):
        if secs is None:
            secs = sim_time()
        return _real['gmtime'](secs)

    def sim_localtime(secs=None):
        if secs is None:
            secs = sim_time()
        return _real['localtime'](secs)

    def sim_strftime(fmt, t=None):
        if t is None:
            t = sim_localtime()
        return _real['strftime'](fmt, t)

    _time.time = sim_time
    _time.gmtime = sim_gmtime
    _time.localtime = sim_localtime
    _time.strftime = sim_strftime
    SimClock.installed = True


def pristine_parent(full=False):
    """Turn this interpreter into the pristine parent of all forked lifetimes."""
    install_clock()
    SimClock.now = T0
    import plasTeX                      # noqa
    import plasTeX.TeX                  # noqa
    import plasTeX.Compile              # noqa
    import plasTeX.client               # noqa
    from plasTeX.Logging import disableLogging
    disableLogging()
    if full:
        preimport_all()


def preimport_all():
    import importlib
    import pkgutil
    import plasTeX.Packages
    import plasTeX.Renderers
    failed = []
    for m in sorted(x.name for x in pkgutil.iter_modules(plasTeX.Packages.__path__)):
        try:
            importlib.import_module('plasTeX.Packages.' + m)
        except Exception as e:
            failed.append((m, repr(e)))
    for r in ('HTML5', 'XHTML', 'Text', 'ManPage', 'DocBook', 'PageTemplate'):
        importlib.import_module('plasTeX.Renderers.' + r)
    return failed


# --------------------------------------------------------------------------
# SimFS

class _WProxy(object):
    """Thin proxy around a file opened for writing under the sim root."""

    def __init__(self, fs, real, rel, binary):
        self.__dict__['_fs'] = fs
        self.__dict__['_real'] = real
        self.__dict__['_rel'] = rel
        self.__dict__['_binary'] = binary
        self.__dict__['_written'] = 0

    def write(self, data):
        fs = self._fs
        n = fs.event('write', self._rel, len(data))
        if fs.crash_at == n:
            tear = fs.crash.get('tear', 0)
            if tear < 0:
                tear = 0
            part = data[:min(tear, len(data))]
            self._real.write(part)
            self._real.flush()
            fs.die()
        if fs.ioerr_at == n:
            tear = max(0, min(fs.ioerr.get('tear', 0), len(data)))
            self._real.write(data[:tear])           # short write, then the error (disk full)
            self._real.flush()
            fs.fail(self._rel)
        self.__dict__['_written'] += len(data)
        return self._real.write(data)

    def writelines(self, lines):
        for ln in lines:
            self.write(ln)

    def close(self):
        if not self._real.closed:
            n = self._fs.event('close', self._rel, self._written)
            if self._fs.crash_at == n:
                # data handed to write() but not yet flushed by close(): lost
                try:
                    os.ftruncate(self._real.fileno(), 0) if self._fs.crash.get('lose_unflushed') else None
                except Exception:
                    pass
                self._real.flush()
                self._fs.die()
        return self._real.close()

    def __enter__(self):
        return self

    def __exit__(self, *a):
        self.close()
        return False

    def __getattr__(self, name):
        return getattr(self._real, name)

    def __setattr__(self, name, value):
        setattr(self._real, name, value)

    def __iter__(self):
        return iter(self._real)


class SimFS(object):
    """Interposer over a real directory: logs every access under `root`, can
    tear the in-flight write and kill the process at any event, permutes
    directory listings, keeps the per-job write log."""

    def __init__(self, root, crash=None, perm_seed=None):
        self.root = os.path.realpath(root)
        self.crash = crash or None
        self.crash_at = crash['event'] if crash and 'event' in crash and not crash.get('ioerr') else -1
        # an injected I/O error (ENOSPC, EIO, EACCES ...) instead of a crash: the call fails, the process lives on
        self.ioerr = crash if crash and crash.get('ioerr') else None
        self.ioerr_at = self.ioerr['event'] if self.ioerr else -1
        self.perm_seed = perm_seed
        self.log = []
        self.writes = []           # rel paths opened for writing, in order (write log)
        self.reads = []            # rel paths opened for reading
        self.copied = set()        # rel paths that are verbatim copies of files from outside (theme assets)
        self.passthrough = 0
        self.installed = False
        self.marks = {}

    # -- helpers
    def rel(self, path):
        try:
            if isinstance(path, int):
                return None
            p = os.path.realpath(os.path.abspath(os.fspath(path)))
        except Exception:
            return None
        if p == self.root:
            return '.'
        if p.startswith(self.root + os.sep):
            return p[len(self.root) + 1:]
        return None

    def event(self, kind, rel, extra=None):
        n = len(self.log)
        self.log.append((n, kind, rel, extra))
        if self.crash_at == n and kind not in ('write', 'close', 'open-w'):
            self.die()
        return n

    def fail(self, what):
        import errno as _errno
        self.marks['ioerr-fired'] = len(self.log) - 1
        code = self.ioerr.get('errno', _errno.ENOSPC)
        raise OSError(code, 'simulated I/O error (%s)' % os.strerror(code), what)

    def die(self):
        try:
            sys.stdout.flush()
        except Exception:
            pass
        os._exit(CRASH_STATUS)

    def permute(self, seq, salt):
        seq = list(seq)
        if self.perm_seed is None:
            return seq
        import random
        random.Random(core.h64(self.perm_seed, salt, len(seq))).shuffle(seq)
        return seq

    def mark(self, name):
        """Named position in the event log (e.g. start of the render phase)."""
        self.marks[name] = len(self.log)

    # -- installation
    def install(self):
        fs = self

        def sim_open(file, mode='r', *a, **kw):
            if fs.passthrough:
                return _real['open'](file, mode, *a, **kw)
            rel = fs.rel(file)
            if rel is None:
                return _real['open'](file, mode, *a, **kw)
            if any(c in mode for c in 'wax+'):
                kind = 'open-w' if 'w' in mode else ('open-a' if 'a' in mode else 'open-x')
                n = fs.event(kind, rel, mode)
                if fs.ioerr_at == n:
                    fs.fail(rel)                    # the open itself fails: nothing is truncated
                f = _real['open'](file, mode, *a, **kw)
                fs.writes.append(rel)
                if fs.crash_at == n:
                    f.flush()
                    fs.die()
                return _WProxy(fs, f, rel, 'b' in mode)
            n = fs.event('open-r', rel, mode)
            fs.reads.append(rel)
            if fs.ioerr_at == n:
                fs.fail(rel)
            return _real['open'](file, mode, *a, **kw)

        def logged(kind, fn, relarg=0):
            def wrapper(*a, **kw):
                if not fs.passthrough:
                    rel = fs.rel(a[relarg]) if len(a) > relarg else None
                    if rel is not None:
                        fs.event(kind, rel)
                return fn(*a, **kw)
            wrapper.__name__ = getattr(fn, '__name__', kind)
            return wrapper

        def sim_listdir(path='.'):
            res = _real['listdir'](path)
            rel = fs.rel(path)
            if rel is None or fs.passthrough:
                return res
            fs.event('listdir', rel, len(res))
            return fs.permute(res, 'listdir:' + rel)

        def sim_glob(pattern, *a, **kw):
            res = _real['glob'](pattern, *a, **kw)
            rel = fs.rel(os.path.dirname(os.fspath(pattern)) or '.')
            if rel is None or fs.passthrough:
                return res
            fs.event('glob', rel, os.path.basename(os.fspath(pattern)))
            return fs.permute(res, 'glob:' + rel)

        def sim_walk(top, *a, **kw):
            rel = fs.rel(top)
            if rel is None or fs.passthrough:
                for x in _real['walk'](top, *a, **kw):
                    yield x
                return
            fs.event('walk', rel)
            for root, dirs, files in _real['walk'](top, *a, **kw):
                dirs[:] = fs.permute(dirs, 'walkd:' + root)
                yield root, dirs, fs.permute(files, 'walkf:' + root)

        def sim_copy(kind):
            def wrapper(src, dst, *a, **kw):
                rel = fs.rel(dst)
                if rel is not None and not fs.passthrough:
                    fs.event('copy', rel, os.path.basename(os.fspath(src)))
                    d = os.fspath(dst)
                    target = os.path.join(rel, os.path.basename(os.fspath(src))) if os.path.isdir(d) else rel
                    fs.writes.append(target)
                    fs.copied.add(target)
                fs.passthrough += 1
                try:
                    return _real[kind](src, dst, *a, **kw)
                finally:
                    fs.passthrough -= 1
            return wrapper

        builtins.open = sim_open
        io.open = sim_open
        os.remove = logged('remove', _real['remove'])
        os.unlink = logged('remove', _real['unlink'])
        os.makedirs = logged('mkdir', _real['makedirs'])
        os.mkdir = logged('mkdir', _real['mkdir'])
        os.chdir = logged('chdir', _real['chdir'])
        os.rename = logged('rename', _real['rename'], 1)
        os.replace = logged('rename', _real['replace'], 1)
        os.listdir = sim_listdir
        os.walk = sim_walk
        _glob.glob = sim_glob
        shutil.copy = sim_copy('copy')
        shutil.copy2 = sim_copy('copy2')
        shutil.copyfile = sim_copy('copyfile')
        self.installed = True

    def uninstall(self):
        builtins.open = _real['open']
        io.open = _real['open']
        os.remove, os.unlink = _real['remove'], _real['unlink']
        os.makedirs, os.mkdir, os.chdir = _real['makedirs'], _real['mkdir'], _real['chdir']
        os.rename, os.replace = _real['rename'], _real['replace']
        os.listdir, os.walk = _real['listdir'], _real['walk']
        _glob.glob = _real['glob']
        shutil.copy, shutil.copy2, shutil.copyfile = _real['copy'], _real['copy2'], _real['copyfile']
        self.installed = False


class PopenRecorder(object):
    """subprocess seam: every call is recorded and fails like a missing
    program, so kpsewhich falls back to the TEXINPUTS search and no imager or
    html filter ever runs."""
    calls = []

    def __init__(self, args, *a, **kw):
        PopenRecorder.calls.append(args if isinstance(args, str) else list(args))
        raise FileNotFoundError(2, 'simulated: no such program', str(args))


def install_env(env):
    """SimEnv: cwd, TEXINPUTS, HOME, template path variables."""
    for k in ('TEXINPUTS', 'XHTMLTEMPLATES', 'HTML5TEMPLATES', 'PLASTEXTEMPLATES', 'HOME'):
        if k in os.environ:
            del os.environ[k]
    for k, v in (env or {}).get('environ', {}).items():
        os.environ[k] = v
    subprocess.Popen = PopenRecorder
    PopenRecorder.calls = []


# --------------------------------------------------------------------------
# lifetimes

def resolve(funcpath):
    import importlib
    mod, name = funcpath.split(':')
    return getattr(importlib.import_module(mod), name)


def child_main(funcpath, args, setup):
    """Runs inside the simulated process (forked or exec'd)."""
    SimClock.now = setup.get('clock', T0)
    install_env(setup.get('env'))
    fs = None
    if setup.get('root'):
        fs = SimFS(setup['root'], crash=setup.get('crash'), perm_seed=setup.get('perm_seed'))
        fs.install()
    if setup.get('cwd'):
        _real['chdir'](setup['cwd'])
    func = resolve(funcpath)
    out = {'ok': True}
    try:
        out['result'] = func(args, fs)
    except BaseException as e:
        out = {'ok': False, 'exception': type(e).__name__, 'message': str(e)[:500],
               'traceback': traceback.format_exc()[-3000:]}
    if fs is not None:
        fs.uninstall()
        out['fs'] = {'log': fs.log, 'writes': fs.writes, 'reads': fs.reads, 'marks': fs.marks}
    out['popen_calls'] = len(PopenRecorder.calls)
    out['clock_reads'] = SimClock.reads
    return out


def run_forked(funcpath, args, setup, timeout=120):
    """-> ('ok'|'crashed', out).  Anything else raises HarnessError."""
    r, w = os.pipe()
    sys.stdout.flush()
    sys.stderr.flush()
    pid = os.fork()
    if pid == 0:
        status = 3
        try:
            os.close(r)
            signal.alarm(0)
            signal.signal(signal.SIGALRM, signal.SIG_DFL)
            devnull = os.open(os.devnull, os.O_WRONLY)
            os.dup2(devnull, 1)
            if not os.environ.get('VERIF_CHILD_STDERR'):
                os.dup2(devnull, 2)
            import faulthandler
            faulthandler.dump_traceback_later(timeout + 5, exit=True)
            out = child_main(funcpath, args, setup)
            data = pickle.dumps(out, protocol=4)
            view = memoryview(data)
            while view:
                n = os.write(w, view[:65536])
                view = view[n:]
            status = 0
        except BaseException:
            try:
                os.write(w, pickle.dumps({'ok': False, 'exception': 'HarnessChildError',
                                          'traceback': traceback.format_exc()[-3000:]}))
            except Exception:
                pass
            status = 4
        finally:
            os._exit(status)
    os.close(w)
    chunks = []
    deadline = _real['time']() + timeout
    try:
        while True:
            left = deadline - _real['time']()
            if left <= 0:
                os.kill(pid, signal.SIGKILL)
                os.waitpid(pid, 0)
                raise core.HarnessError('lifetime timed out after %ss: %s' % (timeout, funcpath))
            rl, _, _ = select.select([r], [], [], min(left, 5))
            if rl:
                b = os.read(r, 1 << 20)
                if not b:
                    break
                chunks.append(b)
    finally:
        os.close(r)
    _, st = os.waitpid(pid, 0)
    code = os.waitstatus_to_exitcode(st)
    if code == CRASH_STATUS:
        return 'crashed', None
    if code != 0 or not chunks:
        raise core.HarnessError('lifetime exited with %s: %s' % (code, funcpath))
    return 'ok', pickle.loads(b''.join(chunks))


def run_execd(funcpath, args, setup, hashseed=0, timeout=180):
    env = dict(os.environ)
    env['PYTHONHASHSEED'] = str(hashseed)
    env['VERIF_REPO'] = core.REPO
    env['PYTHONDONTWRITEBYTECODE'] = '1'
    payload = json.dumps({'func': funcpath, 'args': args, 'setup': setup})
    p = subprocess.run([core.PYTHON, os.path.join(core.VERIF, 'sim', 'worker.py')], input=payload.encode(),
                       capture_output=True, env=env, timeout=timeout)
    if p.returncode == CRASH_STATUS:
        return 'crashed', None
    if p.returncode != 0:
        raise core.HarnessError('exec lifetime exited with %s: %s' % (p.returncode, p.stderr.decode()[-2000:]))
    marker = b'\n@@RESULT@@'
    i = p.stdout.rfind(marker)
    if i < 0:
        raise core.HarnessError('exec lifetime printed no result: %s' % p.stderr.decode()[-2000:])
    return 'ok', pickle.loads(bytes.fromhex(p.stdout[i + len(marker):].strip().decode()))


def run_lifetime(funcpath, args, setup, mode='fork', hashseed=0, timeout=120):
    if mode == 'exec':
        return run_execd(funcpath, args, setup, hashseed=hashseed, timeout=timeout + 60)
    return run_forked(funcpath, args, setup, timeout=timeout)


# --------------------------------------------------------------------------
# temp roots

def make_root(tag):
    import tempfile
    base = os.environ.get('VERIF_TMP', os.environ.get('TMPDIR', '/tmp'))
    return tempfile.mkdtemp(prefix='plastex_sim_%s_' % tag, dir=base)


def remove_root(root):
    shutil.rmtree(root, ignore_errors=True)
