#!/venv/bin/python
"""Exec'd simulated process lifetime: another interpreter (own PYTHONHASHSEED)
that installs the clock seam, imports plasTeX from the tree under test, runs one
job function and prints its pickled result."""
import os
import sys

VERIF = os.path.dirname(os.path.dirname(os.path.abspath(__file__)))
sys.dont_write_bytecode = True
sys.path.insert(0, VERIF)
sys.path.insert(0, os.environ.get('VERIF_REPO', '/repo'))


def main():
    import json
    import pickle
    job = json.loads(sys.stdin.read())
    from sim import lifetimes
    real_stdout = os.dup(1)
    devnull = os.open(os.devnull, os.O_WRONLY)
    os.dup2(devnull, 1)
    lifetimes.pristine_parent(full=job['setup'].get('full', False))
    out = lifetimes.child_main(job['func'], job['args'], job['setup'])
    data = b'\n@@RESULT@@' + pickle.dumps(out, protocol=4).hex().encode() + b'\n'
    os.write(real_stdout, data)
    os._exit(0)


if __name__ == '__main__':
    import faulthandler
    faulthandler.enable()
    main()
