"""C06 - the document tree stays a consistent tree under any sequence of DOM edits.

History of the documented editing operations over a pool of detached elements,
text nodes (several with equal content: Text is a str, equality != identity),
fragments and attribute-held fragments.  Real code: plasTeX.DOM.  Oracle: a
list-of-lists model keeping object identity on the side; after every op all
parent links, owner documents, child orders and derived views are compared.
No fault space exists (the DOM touches no file, clock or scheduler).

Normal form (the premise "applied with detached or fragment arguments"):
arguments are detached subtree roots or fresh fragments, never an ancestor of
the target; a fragment that was inserted is spent; an attribute-held fragment
is installed the way plasTeX's own parser does it (fragment.parentNode = the
holding element) and is not edited afterwards.  Fragments are transparent in
this DOM: a child of a stand-alone fragment may name the fragment or the
fragment's own parent as its parent, and a child of an attribute-held fragment
may name the fragment or the holding element.
"""
from .. import core
import os

PID = 'C06'

META = {
    'level': 'exploration',
    'fork_batches': True,       # each batch runs in a forked child of the pool worker (bounded memory)
    'runs': {'quick': 40000, 'thorough': 3000000},
    'batch': {'quick': 400, 'thorough': 4000},
    'wall_cap': {'quick': 600, 'thorough': 3000},
    'rule': ('seeded edit histories (<=40 ops; lengths 1-5 get half of the runs) over a pool of <=24 '
             'nodes; non-trivial iff >=2 edits changed the tree and the final tree has depth>=2 or used a '
             'fragment; distinct = digest of the executed op list; distinct_states = distinct model-tree digests. Plus a bounded '
             'EXHAUSTIVE part: every enabled sequence of 2 (quick) / 3 (thorough; 4 below 48 seeded two-op prefixes) concrete edit '
             'operations over the pool {root, 2 elements, 2 equal text nodes, 1 two-child fragment}, counted under dense_sweep_cases'),
    'components': {'real': ['plasTeX.DOM (Node, Element, Text, DocumentFragment, NamedNodeMap, Document)'],
                   'stub': ['none: pure in-memory data structure; the caller is the simulator']},
    'assumptions': ['list-of-lists reference model (sim/props/c06.py) is trusted',
                    'normal form: detached/fresh-fragment arguments, no cycles, spent fragments not reused, '
                    'attribute fragments installed as plasTeX.TeX does and not edited afterwards',
                    'no fault space exists for this property (sequential refinement only)'],
    'probe_names': ['parsed_tree', 'parsed_views_read', 'parsed_raise', 'borrowed_without_reparenting', 'frag_into_frag', 'frag_insert_middle', 'empty_frag', 'equal_text_siblings',
                    'reinsertion_of_removed', 'normalize_merged', 'clone_deep', 'clone_shallow', 'attr_frag',
                    'cmp_deep_common_ancestor', 'setitem_frag', 'detached_target', 'dfs_exhaustive', 'str_argument', 'shadow_container_edit', 'element_with_str', 'insert_beyond_end'],
    'shrink_budget': 500,
    'enum_batch': {'quick': 4, 'thorough': 1},
}

TAGS = ['a', 'b', 'c']
TEXTS = ['x', 'y', 'x', ' ', 'zz', 'x', '']
OPS = ['NEW_ELEM', 'NEW_TEXT', 'NEW_FRAG', 'APPEND', 'INSERT', 'INSERT_BEFORE', 'INSERT_AFTER',
       'REPLACE', 'REMOVE', 'POP', 'SETITEM', 'EXTEND', 'SETATTR', 'NORMALIZE', 'CLONE', 'STR', 'SHADOW', 'BORROW']


def generate(seed, tier):
    R = core.Rngs(seed)
    r = R('ops')
    if r.random() < 0.5:
        n = r.randint(1, 5)
    else:
        n = r.randint(6, 40)
    weights = dict((o, r.choice([0, 1, 1, 2, 3])) for o in OPS)   # swarm: ~1/5 of kinds off per run
    for o in ('NEW_ELEM', 'NEW_TEXT', 'APPEND'):
        weights[o] = max(weights[o], 1)
    kinds = [o for o in OPS for _ in range(weights[o])]
    ops = []
    # seed the pool so that short histories already have something to edit
    for k in range(r.randint(2, 6)):
        c = r.random()
        if c < 0.45:
            ops.append({'op': 'NEW_ELEM', 'tag': r.choice(TAGS)})
        elif c < 0.8:
            ops.append({'op': 'NEW_TEXT', 'text': r.choice(TEXTS)})
        else:
            ops.append(_newfrag(r))
        ops.append({'op': r.choice(['APPEND', 'APPEND', 'INSERT']), 't': r.randrange(64), 'a': r.randrange(64),
                    'i': r.randrange(64)})
    for k in range(n):
        o = r.choice(kinds)
        if o == 'NEW_ELEM':
            ops.append({'op': o, 'tag': r.choice(TAGS), 'str': ('S%d' % r.randrange(3)) if r.random() < 0.12 else None})
        elif o == 'NEW_TEXT':
            ops.append({'op': o, 'text': r.choice(TEXTS)})
        elif o == 'NEW_FRAG':
            ops.append(_newfrag(r))
        elif o == 'EXTEND':
            ops.append({'op': o, 't': r.randrange(64), 'args': [r.randrange(64) for _ in range(r.randint(0, 3))]})
        elif o == 'CLONE':
            ops.append({'op': o, 't': r.randrange(64), 'deep': r.random() < 0.7})
        elif o == 'SETATTR':
            ops.append({'op': o, 't': r.randrange(64), 'a': r.randrange(64), 'key': r.choice(['k1', 'k2'])})
        elif o == 'SHADOW':
            ops.append({'op': o, 'how': r.choice(['pop', 'remove']), 't': r.randrange(64), 'i': r.randrange(64)})
        elif o == 'BORROW':
            ops.append({'op': o, 'how': r.choice(['append', 'extend', 'insert']), 't': r.randrange(64), 'frag': r.random() < 0.5})
        elif o == 'STR':
            ops.append({'op': o, 'how': r.choice(['append', 'insert', 'setitem']), 't': r.randrange(64), 'i': r.randrange(64),
                        'text': r.choice(TEXTS)})
        else:
            ops.append({'op': o, 't': r.randrange(64), 'a': r.randrange(64), 'i': r.randrange(64),
                        'neg': r.random() < 0.2})
    return {'property': PID, 'seed': seed, 'swarm': {'pairs': 6}, 'ops': ops}


def _newfrag(r):
    kids = []
    for k in range(r.randint(0, 3)):
        c = r.random()
        if c < 0.45:
            kids.append(['e', r.choice(TAGS)])
        elif c < 0.85:
            kids.append(['t', r.choice(TEXTS)])
        else:
            kids.append(['f', [['t', r.choice(TEXTS)], ['e', r.choice(TAGS)]][:r.randint(0, 2)]])
    return {'op': 'NEW_FRAG', 'kids': kids}


# --------------------------------------------------------------------------
# model

class M(object):
    __slots__ = ('kind', 'tag', 'text', 'children', 'parent', 'attrs', 'holder', 'spent', 'real', 'hid', 'shadow', 'strval')

    def __init__(self, kind, real, tag=None, text=None, hid=0):
        self.kind, self.real, self.tag, self.text, self.hid = kind, real, tag, text, hid
        self.children = []
        self.parent = None
        self.attrs = {}
        self.holder = None
        self.spent = False
        self.strval = None      # plasTeX extension: an element whose `str` is set contributes that string as its text
        self.shadow = None      # nodes a spent fragment / shallow clone still LISTS although they live elsewhere

    def subtree(self):
        out = [self]
        for c in self.children:
            out.extend(c.subtree())
        return out

    def is_ancestor_or_self_of(self, other):
        while other is not None:
            if other is self:
                return True
            other = other.parent if other.parent is not None else other.holder
        return False

    def digest(self):
        if self.kind == 't':
            return ['t', self.text]
        return [self.kind, self.tag, [c.digest() for c in self.children],
                [[k, v.digest()] for k, v in self.attrs.items()]]


class Violation(Exception):
    def __init__(self, sig, detail):
        Exception.__init__(self, sig)
        self.sig, self.detail = sig, detail


class World(object):
    def __init__(self):
        from plasTeX.DOM import Document
        self.doc = Document()
        self.nodes = []     # every M ever created, in creation order
        self.root = self.new_elem('root')
        self.info = {}
        self.changed = 0
        self.states = []

    # -- creation
    def _reg(self, m):
        m.hid = len(self.nodes)
        self.nodes.append(m)
        return m

    def new_elem(self, tag, strval=None):
        m = self._reg(M('e', self.doc.createElement(tag), tag=tag))
        if strval is not None:
            m.real.str = strval
            m.strval = strval
            self.info['element_with_str'] = 1
        return m

    def text_of(self, m):
        if m.kind == 't':
            return m.text
        if m.strval is not None:
            return m.strval
        return ''.join(self.text_of(c) for c in m.children)

    def new_text(self, text):
        return self._reg(M('t', self.doc.createTextNode(text), text=text))

    def new_frag(self, kids):
        f = self._reg(M('f', self.doc.createDocumentFragment()))
        for k in kids:
            if k[0] == 'e':
                c = self.new_elem(k[1])
            elif k[0] == 't':
                c = self.new_text(k[1])
            else:
                c = self.new_frag(k[1])
                self.info['frag_into_frag'] = 1
            f.real.append(c.real)
            self._model_insert(f, len(f.children), c)
        return f

    # -- selection (computed at execution time: closed under deletion of ops)
    def targets(self, allow_frag=True):
        out = []
        for m in self.nodes:
            if m.spent or m.holder is not None:
                continue
            if m.kind == 'e' or (m.kind == 'f' and allow_frag):
                if self._inside_attr(m):
                    continue
                out.append(m)
        return out

    def _inside_attr(self, m):
        while m is not None:
            if m.holder is not None:
                return True
            m = m.parent
        return False

    def args(self, target):
        out = []
        for m in self.nodes:
            if m is self.root or m.spent or m.holder is not None or m.parent is not None:
                continue
            if m.is_ancestor_or_self_of(target):
                continue
            out.append(m)
        return out

    # -- model edits
    def _model_insert(self, target, i, arg):
        items = list(arg.children) if arg.kind == 'f' else [arg]
        if arg.kind == 'f':
            arg.spent = True
            arg.shadow = list(items)     # this DOM does not empty an inserted fragment
            arg.children = []
        target.children[i:i] = items
        for it in items:
            it.parent = target
        return len(items)

    def _model_remove(self, target, i):
        c = target.children.pop(i)
        c.parent = None
        return c

    # -- the ops
    def apply(self, op):
        o = op['op']
        if o == 'NEW_ELEM':
            if len(self.nodes) < 24:
                self.new_elem(op['tag'], op.get('str'))
            return
        if o == 'NEW_TEXT':
            if len(self.nodes) < 24:
                self.new_text(op['text'])
            return
        if o == 'NEW_FRAG':
            if len(self.nodes) < 20:
                self.new_frag(op['kids'])
            return
        if o == 'SHADOW':
            # a removal issued on a container that merely still LISTS nodes living elsewhere (an inserted fragment,
            # a shallow clone): its own list shrinks, the tree those nodes live in must not notice
            cont = [m for m in self.nodes if m.shadow]
            if not cont:
                return
            t = cont[op['t'] % len(cont)]
            i = op['i'] % len(t.shadow)
            x = t.shadow[i]
            if op['how'] == 'pop':
                ret = t.real.pop(i)
            else:
                ret = t.real.removeChild(x.real)
            if ret is not x.real:
                raise Violation('C06|return|shadow-%s' % op['how'], {'what': 'removal on a fragment/clone returned another node'})
            t.shadow.pop(i)
            self.info['shadow_container_edit'] = 1
            return
        if o == 'BORROW':
            # setParent=False (plasTeX's own fullTitle / fullTocEntry do this): a scratch fragment LISTS nodes that keep
            # living where they are - nothing in the tree, and nothing in the lending fragment, may notice
            view = self.doc.createDocumentFragment()
            if op.get('frag'):
                # detached fragments and fragments held in an attribute (the title of a section)
                src = [m for m in self.nodes if m.kind == 'f' and not m.spent and m.parent is None and m.children]
                if not src:
                    return
                f = src[op['t'] % len(src)]
                want = [c.real for c in f.children]
                if op['how'] == 'insert':
                    view.insert(0, f.real, setParent=False)
                elif op['how'] == 'extend':
                    view.extend([f.real], setParent=False)
                else:
                    view.append(f.real, setParent=False)
            else:
                tg = [m for m in self.targets(True) if m.children]
                if not tg:
                    return
                t = tg[op['t'] % len(tg)]
                want = [c.real for c in t.children]
                if op['how'] == 'extend':
                    view.extend(list(want), setParent=False)
                else:
                    for k, x in enumerate(want):
                        if op['how'] == 'insert':
                            view.insert(k, x, setParent=False)
                        else:
                            view.append(x, setParent=False)
            got = list(view)
            if len(got) != len(want) or any(a is not b for a, b in zip(got, want)):
                raise Violation('C06|borrow|view-order', {'what': 'a setParent=False container does not list the borrowed nodes in order',
                                                          'how': op['how'], 'frag': bool(op.get('frag'))})
            self.info['borrowed_without_reparenting'] = 1
            return
        if o == 'STR':
            # a plain str argument: the DOM turns it into a text node of this document itself
            if len(self.nodes) >= 30:
                return
            tg = [m for m in self.targets(False) if m.kind == 'e']
            if not tg:
                return
            t = tg[op['t'] % len(tg)]
            n = len(t.children)
            how = op['how']
            if how == 'setitem' and n == 0:
                how = 'append'
            i = op['i'] % (n + 1) if how == 'insert' else (op['i'] % n if how == 'setitem' else n)
            if how == 'append':
                t.real.append(op['text'])
            elif how == 'insert':
                t.real.insert(i, op['text'])
            else:
                t.real[i] = op['text']
                self._removed_once.append(self._model_remove(t, i))
            real = list(t.real)[i]
            m = self._reg(M('t', real, text=op['text']))
            t.children.insert(i, m)
            m.parent = t
            self.info['str_argument'] = 1
            self.changed += 1
            return
        allow_frag = o in ('APPEND', 'INSERT', 'EXTEND', 'INSERT_BEFORE', 'INSERT_AFTER', 'REPLACE', 'REMOVE', 'POP', 'SETITEM')
        tg = self.targets(allow_frag)
        if not tg:
            return
        t = tg[op['t'] % len(tg)]
        if t is not self.root and not self.root.is_ancestor_or_self_of(t):
            self.info['detached_target'] = 1
        n = len(t.children)
        if o in ('APPEND', 'INSERT', 'INSERT_BEFORE', 'INSERT_AFTER', 'REPLACE', 'SETITEM', 'SETATTR'):
            av = self.args(t)
            if o == 'SETATTR':
                av = [m for m in av if m.kind == 'f']
            if not av:
                return
            a = av[op['a'] % len(av)]
            if a.kind == 'f':
                if not a.children:
                    self.info['empty_frag'] = 1
                if t.kind == 'f':
                    self.info['frag_into_frag'] = 1
            if any(x is a for x in self._removed_once):
                self.info['reinsertion_of_removed'] = 1
        if o == 'APPEND':
            t.real.append(a.real)
            self._model_insert(t, n, a)
        elif o == 'INSERT':
            i = op['i'] % (n + 3)            # up to two positions beyond the end: a list insert clamps
            if i > n:
                self.info['insert_beyond_end'] = 1
            if a.kind == 'f' and 0 < i < n and len(a.children) > 1:
                self.info['frag_insert_middle'] = 1
            t.real.insert(i, a.real)
            self._model_insert(t, min(i, n), a)
        elif o in ('INSERT_BEFORE', 'INSERT_AFTER'):
            if n == 0:
                return
            i = op['i'] % n
            ref = t.children[i]
            if o == 'INSERT_BEFORE':
                t.real.insertBefore(a.real, ref.real)
                self._model_insert(t, i, a)
            else:
                t.real.insertAfter(a.real, ref.real)
                self._model_insert(t, i + 1, a)
        elif o == 'REPLACE':
            if n == 0:
                return
            i = op['i'] % n
            old = t.children[i]
            ret = t.real.replaceChild(a.real, old.real)
            if ret is not old.real:
                raise Violation('C06|return|replaceChild', {'what': 'replaceChild did not return the old child'})
            self._removed_once.append(self._model_remove(t, i))
            self._model_insert(t, i, a)
        elif o == 'REMOVE':
            if n == 0:
                return
            i = op['i'] % n
            old = t.children[i]
            ret = t.real.removeChild(old.real)
            if ret is not old.real:
                raise Violation('C06|return|removeChild', {'what': 'removeChild did not return the child'})
            self._removed_once.append(self._model_remove(t, i))
        elif o == 'POP':
            if n == 0:
                return
            i = op['i'] % n
            old = t.children[i]
            ret = t.real.pop(i - n if op.get('neg') else i)
            if ret is not old.real:
                raise Violation('C06|return|pop', {'what': 'pop(%d) returned another node' % i})
            self._removed_once.append(self._model_remove(t, i))
        elif o == 'SETITEM':
            if n == 0:
                return
            i = op['i'] % n
            if a.kind == 'f':
                self.info['setitem_frag'] = 1
            t.real[i] = a.real
            self._removed_once.append(self._model_remove(t, i))
            self._model_insert(t, i, a)
        elif o == 'EXTEND':
            chosen = []
            for ai in op['args']:
                av = [m for m in self.args(t) if not any(m is c for c in chosen)]
                if not av:
                    break
                chosen.append(av[ai % len(av)])
            t.real.extend([c.real for c in chosen])
            for c in chosen:
                self._model_insert(t, len(t.children), c)
        elif o == 'SETATTR':
            if t.kind != 'e':
                return
            self.info['attr_frag'] = 1
            a.real.parentNode = t.real          # as plasTeX's own parser installs argument fragments
            t.real.attributes[op['key']] = a.real
            old = t.attrs.get(op['key'])
            if old is not None:
                old.spent = True
                old.holder = None
            t.attrs[op['key']] = a
            a.holder = t
        elif o == 'NORMALIZE':
            if t.kind != 'e':
                return
            self.normalize(t)
        elif o == 'CLONE':
            self.clone(t, op['deep'])
        self.changed += 1

    _removed_once = ()

    # -- normalize: checked structurally, then the model adopts the new text nodes
    def normalize(self, t):
        before_text = str(t.real.textContent)
        t.real.normalize()
        self._sync_normalized(t)
        if str(t.real.textContent) != before_text:
            raise Violation('C06|normalize|textContent', {'before': before_text, 'after': str(t.real.textContent)})
        snap = self._shape(t.real)
        t.real.normalize()
        if self._shape(t.real) != snap:
            raise Violation('C06|normalize|idempotent', {'first': repr(snap)[:300], 'second': repr(self._shape(t.real))[:300]})
        self._sync_normalized(t)

    def _shape(self, real):
        out = []
        for c in real:
            if c.nodeType == c.TEXT_NODE:
                out.append(('t', str(c)))
            else:
                out.append(('e', id(c), self._shape(c)))
        attrs = getattr(real, 'attributes', None)
        if attrs:
            for k, v in attrs.items():
                out.append(('@', k, self._shape(v)))
        return out

    def _sync_normalized(self, m):
        """Real children after normalize vs the model's: the element children
        must be the same objects in the same order; the text between them must
        be the concatenation of the model's text runs, in at most one node."""
        real = list(m.real)
        expected = []      # ('e', M) | ('t', str)
        run = None
        for c in m.children:
            if c.kind == 't':
                run = c.text if run is None else run + c.text
            else:
                if run is not None:
                    expected.append(('t', run))
                    run = None
                expected.append(('e', c))
        if run is not None:
            expected.append(('t', run))
        merged = sum(1 for c in m.children if c.kind == 't') - sum(1 for e in expected if e[0] == 't')
        if merged > 0:
            self.info['normalize_merged'] = 1
        new_children = []
        ri = 0
        for kind, val in expected:
            if kind == 'e':
                if ri >= len(real) or real[ri] is not val.real:
                    raise Violation('C06|normalize|children', {'what': 'element children changed or reordered',
                                                               'model': m.digest(), 'real': repr(self._shape(m.real))[:400]})
                new_children.append(val)
                ri += 1
            else:
                if ri < len(real) and real[ri].nodeType == real[ri].TEXT_NODE:
                    if str(real[ri]) != val:
                        raise Violation('C06|normalize|text', {'expected': val, 'got': str(real[ri])})
                    for c in m.children:
                        if c.kind == 't' and c.real is real[ri]:
                            new_children.append(c)
                            break
                    else:
                        nm = self._reg(M('t', real[ri], text=val))
                        new_children.append(nm)
                    ri += 1
                elif val != '':
                    raise Violation('C06|normalize|text', {'expected': val, 'got': None})
        if ri != len(real):
            raise Violation('C06|normalize|children', {'what': 'extra children after normalize',
                                                       'model': m.digest(), 'real': repr(self._shape(m.real))[:400]})
        for a, b in zip(new_children, new_children[1:]):
            if a.kind == 't' and b.kind == 't':
                raise Violation('C06|normalize|adjacent-text', {'real': repr(self._shape(m.real))[:400]})
        for c in m.children:
            if c.kind == 't' and not any(c is x for x in new_children):
                c.spent = True
                c.parent = None
        m.children = new_children
        for c in new_children:
            c.parent = m
            if c.kind == 'e':
                self._sync_normalized(c)
        for k, f in m.attrs.items():
            self._sync_normalized(f)
            for c in f.children:
                c.parent = f

    # -- clone
    def clone(self, t, deep):
        if any(x.strval is not None for x in t.subtree()):
            return      # `str` is a class-level shortcut of macro classes; the harness sets it per instance, which a
                        # clone (a fresh instance of the class) legitimately does not carry
        c = t.real.cloneNode(deep)
        if deep:
            self.info['clone_deep'] = 1
            if not (c == t.real) or not t.real.isEqualNode(c):
                raise Violation('C06|clone|not-equal', {'model': t.digest()})
            mine = set(id(x) for x in self._real_subtree(t.real))
            theirs = set(id(x) for x in self._real_subtree(c))
            if mine & theirs:
                where = 'attribute' if t.attrs or any(x.attrs for x in t.subtree()) else 'children'
                raise Violation('C06|clone|shared-node|%s' % where, {'model': t.digest(), 'shared': len(mine & theirs)})
            if str(c.textContent) != str(t.real.textContent):
                raise Violation('C06|clone|textContent', {})
            # adopt the clone as a new detached subtree
            if len(self.nodes) < 40:
                self._adopt(c, t)
        else:
            self.info['clone_shallow'] = 1
            if c is t.real or type(c) is not type(t.real) or c.nodeName != t.real.nodeName:
                raise Violation('C06|clone|shallow', {})
            if t.children and len(self.nodes) < 40:
                sc = self._reg(M(t.kind, c, tag=t.tag))
                sc.spent = True                  # never a target or argument of ordinary edits
                sc.shadow = list(t.children)     # a shallow clone lists the original's children

    def _real_subtree(self, real):
        out = [real]
        if real.nodeType == real.TEXT_NODE:
            return out
        for x in real:
            out.extend(self._real_subtree(x))
        attrs = getattr(real, 'attributes', None)
        if attrs:
            for v in attrs.values():
                if hasattr(v, 'nodeType'):
                    out.extend(self._real_subtree(v))
        return out

    def _adopt(self, real, like):
        m = self._reg(M(like.kind, real, tag=like.tag, text=like.text))
        for rc, lc in zip(list(real), like.children):
            cm = self._adopt(rc, lc)
            cm.parent = m
            m.children.append(cm)
        if like.attrs:
            for k, lf in like.attrs.items():
                rf = real.attributes.get(k)
                fm = self._adopt(rf, lf)
                fm.holder = m
                m.attrs[k] = fm
        return m

    # -- invariants and derived views, after every op
    def check(self, rng_pairs):
        from plasTeX.DOM import Node
        roots = [m for m in self.nodes if not m.spent and m.parent is None and m.holder is None]
        for r in roots:
            self._check_subtree(r)
        # derived views on every live root
        for r in roots:
            if r.kind == 't':
                continue
            self._check_views(r)
        # document-position comparison, seeded pairs inside the main tree
        tree = self.root.subtree()
        if len(tree) > 1:
            order = dict((id(m), k) for k, m in enumerate(tree))
            for (x, y) in rng_pairs:
                a, b = tree[x % len(tree)], tree[y % len(tree)]
                got = a.real.compareDocumentPosition(b.real)
                if a is b:
                    exp = Node.DOCUMENT_POSITION_IMPLEMENTATION_SPECIFIC
                elif b.is_ancestor_or_self_of(a):
                    exp = Node.DOCUMENT_POSITION_CONTAINS
                elif a.is_ancestor_or_self_of(b):
                    exp = Node.DOCUMENT_POSITION_CONTAINED_BY
                elif order[id(b)] < order[id(a)]:
                    exp = Node.DOCUMENT_POSITION_PRECEDING
                else:
                    exp = Node.DOCUMENT_POSITION_FOLLOWING
                if exp in (Node.DOCUMENT_POSITION_PRECEDING, Node.DOCUMENT_POSITION_FOLLOWING):
                    if self._common_depth(a, b) > 0:
                        self.info['cmp_deep_common_ancestor'] = 1
                if got != exp:
                    site = 'deeper-common-ancestor' if self._common_depth(a, b) > 0 else 'root-common-ancestor'
                    raise Violation('C06|view|compareDocumentPosition|%s' % site,
                                    {'tree': self.root.digest(), 'a': order[id(a)], 'b': order[id(b)],
                                     'expected': exp, 'got': got,
                                     'legend': 'a,b = preorder indices; 2=PRECEDING 4=FOLLOWING 8=CONTAINS 16=CONTAINED_BY 1=DISCONNECTED'})
        self.states.append(core.h64(core.hexdigest([r.digest() for r in roots if r is self.root])))

    def _common_depth(self, a, b):
        anc = []
        x = a.parent
        while x is not None:
            anc.append(x)
            x = x.parent
        y = b.parent
        while y is not None:
            for k, z in enumerate(anc):
                if z is y:
                    d = 0
                    while z.parent is not None:
                        z = z.parent
                        d += 1
                    return d
            y = y.parent
        return 0

    def _check_subtree(self, m):
        real = m.real
        if real.ownerDocument is not self.doc:
            raise Violation('C06|ownerDocument', {'node': m.digest()})
        if m.kind == 't':
            if str(real) != m.text:
                raise Violation('C06|text-changed', {'expected': m.text, 'got': str(real)})
            return
        kids = list(real)
        if len(kids) != len(m.children) or any(k is not c.real for k, c in zip(kids, m.children)):
            raise Violation('C06|child-order', {'model': m.digest(), 'real': repr(self._shape(real))[:400]})
        for c in m.children:
            p = c.real.parentNode
            if m.kind == 'e':
                ok = p is real
            elif m.holder is not None:
                ok = p is real or p is m.holder.real
            else:
                ok = p is real or p is real.parentNode
            if not ok:
                where = 'element' if m.kind == 'e' else ('attr-fragment' if m.holder is not None else 'fragment')
                raise Violation('C06|parent-link|%s' % where, {'container': m.digest(), 'child': c.digest(),
                                                               'got': repr(p)[:80]})
            self._check_subtree(c)
        if m.kind == 'e':
            ra = real.attributes
            if sorted(ra.keys()) != sorted(m.attrs.keys()) or any(ra[k] is not f.real for k, f in m.attrs.items()):
                raise Violation('C06|attributes', {'model': m.digest()})
            for f in m.attrs.values():
                self._check_subtree(f)
        # equal-text siblings probe
        ts = [c.text for c in m.children if c.kind == 't']
        if len(ts) != len(set(ts)):
            self.info['equal_text_siblings'] = 1

    def _check_views(self, r):
        real = r.real
        for m in r.subtree():
            if m.kind == 't':
                continue
            rc = m.real
            fc, lc = rc.firstChild, rc.lastChild
            efc = m.children[0].real if m.children else None
            elc = m.children[-1].real if m.children else None
            if fc is not efc or lc is not elc:
                raise Violation('C06|view|firstLastChild', {'model': m.digest()})
            if m.children and not rc.hasChildNodes():
                raise Violation('C06|view|hasChildNodes', {'model': m.digest()})
            if m.kind == 'e':     # sibling navigation is defined through parentNode
                for k, c in enumerate(m.children):
                    ep = m.children[k - 1].real if k > 0 else None
                    en = m.children[k + 1].real if k + 1 < len(m.children) else None
                    if c.real.previousSibling is not ep:
                        raise Violation('C06|view|previousSibling', {'model': m.digest(), 'index': k})
                    if c.real.nextSibling is not en:
                        raise Violation('C06|view|nextSibling', {'model': m.digest(), 'index': k})
            exp_text = self.text_of(m)
            if str(rc.textContent) != exp_text:
                raise Violation('C06|view|textContent', {'model': m.digest(), 'expected': exp_text,
                                                         'got': str(rc.textContent)})
        # whole-root views
        alln = real.allChildNodes
        exp = [x.real for x in r.subtree()[1:]]
        if len(alln) != len(exp) or any(a is not b for a, b in zip(alln, exp)):
            raise Violation('C06|view|allChildNodes', {'model': r.digest()})
        if hasattr(real, 'getElementsByTagName'):
            got = list(real.getElementsByTagName(['a', 'b']))        # a list of names: same traversal order
            expe = [x.real for x in self._by_tag(r, ('a', 'b'))]
            if len(got) != len(expe) or any(a is not b for a, b in zip(got, expe)):
                raise Violation('C06|view|getElementsByTagName|list', {'model': r.digest(), 'got': len(got), 'expected': len(expe)})
            for tag in TAGS:
                got = list(real.getElementsByTagName(tag))
                expe = [x.real for x in self._by_tag(r, tag)]
                if len(got) != len(expe) or any(a is not b for a, b in zip(got, expe)):
                    raise Violation('C06|view|getElementsByTagName', {'model': r.digest(), 'tag': tag,
                                                                      'got': len(got), 'expected': len(expe)})

    def _by_tag(self, m, tag):
        """Lookup order of this DOM: attribute-held fragments first (map order), then children."""
        out = []
        for f in m.attrs.values():
            out.extend(self._by_tag(f, tag))
        for c in m.children:
            if c.kind == 'e':
                if c.tag == tag or (isinstance(tag, tuple) and c.tag in tag):
                    out.append(c)
                out.extend(self._by_tag(c, tag))
        return out


# --------------------------------------------------------------------------
# bounded exhaustive part ("all operation sequences up to length N over a small node pool"): a DFS record
# {'op': 'DFS', 'depth': N} enumerates, below the prefix of ordinary ops that precedes it, EVERY sequence of
# N concrete edit operations that is enabled in the state reached, checking all invariants after every op.

DFS_INIT = [{'op': 'NEW_ELEM', 'tag': 'a'}, {'op': 'NEW_ELEM', 'tag': 'b'}, {'op': 'NEW_TEXT', 'text': 'x'},
            {'op': 'NEW_TEXT', 'text': 'x'}, {'op': 'NEW_FRAG', 'kids': [['e', 'c'], ['t', 'y']]}]


def enabled_ops(w):
    out = []
    for o in ('APPEND', 'INSERT', 'EXTEND'):
        for ti, t in enumerate(w.targets(True)):
            av = w.args(t)
            n = len(t.children)
            if o == 'APPEND':
                out += [{'op': o, 't': ti, 'a': ai, 'i': 0} for ai in range(len(av))]
            elif o == 'INSERT':
                out += [{'op': o, 't': ti, 'a': ai, 'i': i} for ai in range(len(av)) for i in range(n + 1)]
            else:
                out.append({'op': o, 't': ti, 'args': []})
                out += [{'op': o, 't': ti, 'args': [ai]} for ai in range(len(av))]
                # two arguments: the second index is taken among the remaining candidates
                out += [{'op': o, 't': ti, 'args': [ai, bi]} for ai in range(len(av)) for bi in range(ai, len(av) - 1)]
    for ti, t in enumerate(w.targets(False)):
        av = w.args(t)
        n = len(t.children)
        if t.kind == 'e':
            for o in ('INSERT_BEFORE', 'INSERT_AFTER', 'REPLACE', 'SETITEM'):
                out += [{'op': o, 't': ti, 'a': ai, 'i': i} for ai in range(len(av)) for i in range(n)]
            out += [{'op': 'REMOVE', 't': ti, 'a': 0, 'i': i} for i in range(n)]
            out += [{'op': 'POP', 't': ti, 'a': 0, 'i': i, 'neg': neg} for i in range(n) for neg in (False, True)]
            frags = [m for m in av if m.kind == 'f']
            out += [{'op': 'SETATTR', 't': ti, 'a': ai, 'key': 'k1'} for ai in range(len(frags))]
            out.append({'op': 'NORMALIZE', 't': ti, 'a': 0, 'i': 0})
            out += [{'op': 'CLONE', 't': ti, 'deep': d} for d in (True, False)]
    return out


def _replay(seed, ops):
    w = World()
    w._removed_once = []
    for k, op in enumerate(ops):
        w.apply(op)
    return w


def run_dfs(record, prefix, depth, res):
    """-> violation dict or None; counts executed sequences in res['sub_evaluations']."""
    seed = record.get('seed')
    pairs = [(a, b) for a in range(7) for b in range(7) if a != b][:12]
    count = [0]
    states = set()

    def step(ops, d):
        w = _replay(seed, ops)
        for op in enabled_ops(w):
            seq = ops + [op]
            w2 = _replay(seed, ops)
            try:
                w2.apply(op)
                w2.check(pairs)
            except Violation as v:
                return {'sig': v.sig, 'detail': dict(v.detail, sequence=seq[len(prefix):], prefix=prefix)}
            except Exception as e:
                import traceback
                tb = traceback.extract_tb(e.__traceback__)
                if tb and '/sim/' in tb[-1].filename:
                    raise
                site = '%s:%s' % (tb[-1].filename.split('/')[-1], tb[-1].name) if tb else '?'
                return {'sig': 'C06|raise|%s|%s|%s' % (op['op'], type(e).__name__, site),
                        'detail': {'sequence': seq[len(prefix):], 'prefix': prefix, 'exception': repr(e)}}
            states.add(w2.states[-1])
            if d + 1 < depth:
                v = step(seq, d + 1)
                if v:
                    return v
            else:
                count[0] += 1
        return None

    v = step(list(prefix), 0)
    res['sub_evaluations'] = res.get('sub_evaluations', 0) + count[0]
    res['sub_distinct'] = res.get('sub_distinct', 0) + count[0]     # every enumerated sequence is distinct by construction
    res['states'] = list(set(res['states']) | states)
    return v


def enumerate_cases(base_seed, tier):
    """One DFS record per enabled first operation (so that the 16 workers share the tree)."""
    depth = 2 if tier == 'quick' else 3
    w = _replay(0, DFS_INIT)
    out = []
    firsts = enabled_ops(w)
    for k, first in enumerate(firsts):
        out.append({'property': PID, 'seed': core.h64('C06-dfs', k), 'swarm': {'pairs': 6},
                    'ops': DFS_INIT + [first, {'op': 'DFS', 'depth': depth - 1}]})
    if tier == 'thorough':
        # one level deeper below a seeded sample of two-op prefixes (length 4 in all)
        import random
        r = random.Random(core.h64('C06-dfs4', base_seed))
        for k in range(48):
            first = r.choice(firsts)
            w1 = _replay(0, DFS_INIT + [first])
            second = r.choice(enabled_ops(w1))
            out.append({'property': PID, 'seed': core.h64('C06-dfs4', base_seed, k), 'swarm': {'pairs': 6},
                        'ops': DFS_INIT + [first, second, {'op': 'DFS', 'depth': 2}]})
    out += parsed_cases(base_seed, tier)
    return out


# --------------------------------------------------------------------------
# the tree the PARSER builds: its own edits (paragraph grouping, argument fragments, digestion) are sequences of the
# same operations, so the finished document must satisfy the same link invariants

CATALOGUE = []


def prepare():
    from plasTeX.Logging import disableLogging
    disableLogging()
    global CATALOGUE
    if not CATALOGUE:
        from .. import macrofuzz
        CATALOGUE = macrofuzz.build()


PARSED_CORPUS = ['unittests/amsthm/source.tex', 'unittests/sources/floats.tex', 'unittests/sources/Alignment.tex',
                 'unittests/sources/cancel.tex', 'unittests/sources/align.tex', 'unittests/sources/footnotes.tex',
                 'unittests/Packages/sources/natbib.tex', 'unittests/Packages/sources/pifont.tex', 'unittests/Packages/sources/bib.tex',
                 'unittests/Packages/sources/textcomp.tex', 'unittests/Packages/sources/babel.tex', 'unittests/Packages/sources/multibib.tex']


def parsed_cases(base_seed, tier):
    import random
    from . import c17
    out = []

    def rec(key, ops):
        out.append({'property': PID, 'seed': core.h64('C06-parsed', key), 'swarm': {'parsed': True}, 'ops': ops})
    cat = [e[1] for e in CATALOGUE]
    for j in range(0, len(cat), 10):
        rec(('cat', j), [{'op': 'PARSE', 'items': ['%s cz%d' % (t, k) for k, t in enumerate(cat[j:j + 10])]}])
    blocks = sorted(b for b in c17.BLOCKS if not b.endswith('_open') and not c17.NEEDS.get(b))
    for j in range(0, len(blocks), 8):
        rec(('blk', j), [{'op': 'PARSE', 'items': [c17.BLOCKS[b][2] % {'n': str(k)} for k, b in enumerate(blocks[j:j + 8])]}])
    # a user macro expanded in several places: its body tokens are the SAME objects at every expansion, only
    # normalisation (which builds fresh text nodes) keeps one text node from being listed by several containers
    shared = [
        ([], ['\\newcommand{\\qx}{a}', '\\textbf{\\qx} and \\emph{\\qx} and $\\qx$ and \\qx.', '\n\n', 'Again \\textbf{\\qx}\\footnote{\\qx} \\mbox{\\qx}.', '\n\n']),
        ([], ['\\newcommand{\\qvv}{vw}', 'Formula \\[ \\qvv \\]', '\\begin{center}\\qvv\\end{center}', '\\[ \\qvv \\]', '\n\n', 'Tail \\qvv.', '\n\n']),
        (['hyperref'], ['\\newcommand{\\qsite}{example.org}', 'See \\url{http://\\qsite/a--b} and \\href{http://\\qsite/c}{link \\qsite}.', '\n\n',
                        'And \\nolinkurl{http://\\qsite/d}.', '\n\n']),
        (['url'], ['\\newcommand{\\qsite}{example.org}', 'See \\url{http://\\qsite/a--b} twice \\url{http://\\qsite/a--b}.', '\n\n', 'End.', '\n\n']),
        ([], ['\\def\\qy{shared words}', '\\section{\\qy}', 'Body \\qy.', '\\begin{figure}F\\caption{\\qy}\\end{figure}', '\\section{\\qy}', '\n\n',
              '\\begin{itemize}\\item \\qy \\item[\\qy] \\qy\\end{itemize}', '\n\n']),
        ([], ['Angles $\\left< a \\right>$ and $\\bigl< b \\bigr>$ and $\\Big< c \\Big>$ and $\\left( d \\right)$.', '\n\n',
              'More \\[ \\left< x | y \\right> \\] text.', '\n\n']),
        ([], ['\\newcommand{\\qz}[1]{<#1|#1>}', '\\qz{arg} \\textit{\\qz{arg}}', '\n\n', '\\begin{tabular}{ll}\\qz{c} & \\qz{c}\\end{tabular}', '\n\n']),
    ]
    for j, (pk, items) in enumerate(shared):
        rec(('shared', j), [{'op': 'PARSE', 'items': items, 'packages': pk}])
    # packages and classes that build or move nodes themselves: index entries with page formats, beamer frames,
    # long tables with several head rows, verbatim
    rec(('pkg', 'index'), [{'op': 'PARSE', 'packages': ['makeidx'], 'preamble': '\\makeindex', 'items': [
        'Alpha\\index{alpha|textbf} beta\\index{beta|textbf} gamma\\index{gamma|textit} delta\\index{delta}.', '\n\n',
        'More\\index{alpha|textbf} text\\index{beta!sub|textbf}.', '\n\n', '\\printindex']}])
    rec(('pkg', 'beamer'), [{'op': 'PARSE', 'cls': 'beamer', 'items': [
        '\\begin{frame}\\frametitle{Titled by command} Body one. \\begin{itemize}\\item a \\item b\\end{itemize}\\end{frame}',
        '\\begin{frame}{Titled by argument} Body two.\\end{frame}', '\\begin{frame} Untitled \\textbf{three}.\\end{frame}']}])
    rec(('pkg', 'longtable'), [{'op': 'PARSE', 'packages': ['longtable'], 'items': [
        '\\begin{longtable}{ll}\\caption{Cap}\\\\ Name & Value \\\\ (unit) & (unit) \\\\ \\endfirsthead Name & Value \\\\ \\endhead'
        ' a & b \\\\ c & d\\footnote{fn} \\\\ \\end{longtable}', '\n\n', 'After.', '\n\n']}])
    rec(('pkg', 'verb'), [{'op': 'PARSE', 'items': ['Verb \\verb|ab c| and \\verb*+x y+ and \\verb|z|.', '\n\n',
                                                    '\\begin{verbatim}\nline one\n\\end{verbatim}', '\n\n', 'End.', '\n\n']}])
    # (NOT generated: the same documents as ONE paragraph directly in the body. Nothing normalises such a document, and the
    #  shared body tokens of a macro used twice are then listed by two containers - the parser appends nodes that are not
    #  detached, which is outside the premise of the statement; observed on the unchanged tree, recorded in DESIGN 10.3)
    for j in range(0, len(cat), 40):
        rec(('cat-bare', j), [{'op': 'PARSE', 'items': ['%s cz%d' % (t, k) for k, t in enumerate(cat[j:j + 6])], 'bare': True}])
    for rel in PARSED_CORPUS + (['Doc/plastex.tex'] if tier == 'thorough' else []):
        rec(('file', rel), [{'op': 'PARSEFILE', 'rel': rel}])
    r = random.Random(core.h64('C06-parsed-bags', base_seed))
    for j in range(60 if tier == 'quick' else 1500):
        items = []
        for k in range(r.randint(4, 12)):
            if cat and r.random() < 0.5:
                items.append(r.choice(cat) + ' rz%d' % k)
            else:
                items.append(c17.BLOCKS[r.choice(blocks)][2] % {'n': str(k)})
            if r.random() < 0.3:
                items.append('\n\n')
        rec(('bag', base_seed, j), [{'op': 'PARSE', 'items': items}])
    return out


def check_parsed(doc):
    from plasTeX.DOM import Node

    def walk(node):
        kids = list(node.childNodes) if node.nodeType != Node.TEXT_NODE else []
        for i, c in enumerate(kids):
            p = c.parentNode
            # (a macro lists the children of its own `self` argument: until the enclosing paragraph is normalised their
            #  parent link names that argument fragment, whose own parent is the macro - the transparent-fragment rule)
            via_self = p is not None and p.nodeType == Node.DOCUMENT_FRAGMENT_NODE and p.parentNode is node
            if p is not node and not via_self:
                raise Violation('C06|parsed|parent-link', {'lister': node.nodeName, 'child': c.nodeName,
                                                           'child_parent': getattr(c.parentNode, 'nodeName', None)})
            if getattr(c, 'ownerDocument', None) is not doc:
                raise Violation('C06|parsed|owner-document', {'lister': node.nodeName, 'child': c.nodeName})
            if c.previousSibling is not (kids[i - 1] if i > 0 else None) or c.nextSibling is not (kids[i + 1] if i + 1 < len(kids) else None):
                raise Violation('C06|parsed|sibling-view', {'lister': node.nodeName, 'child': c.nodeName, 'index': i})
            walk(c)
        if kids and (node.firstChild is not kids[0] or node.lastChild is not kids[-1]):
            raise Violation('C06|parsed|first-last', {'lister': node.nodeName})
        attrs = getattr(node, 'attributes', None)
        if attrs:
            for k, v in attrs.items():
                if hasattr(v, 'nodeType') and v.nodeType == Node.DOCUMENT_FRAGMENT_NODE:
                    # (a fragment that library code builds and stores itself - the title of \printindex - has no parent at
                    #  all; what must not happen is a parent link that names ANOTHER node)
                    if v.parentNode is not node and v.parentNode is not None:
                        raise Violation('C06|parsed|attribute-fragment-parent', {'holder': node.nodeName, 'attribute': k,
                                                                                 'parent': getattr(v.parentNode, 'nodeName', None)})
                    for c in v.childNodes:
                        if c.parentNode is not v and c.parentNode is not node:
                            raise Violation('C06|parsed|parent-link', {'lister': '%s.@%s' % (node.nodeName, k), 'child': c.nodeName,
                                                                       'child_parent': getattr(c.parentNode, 'nodeName', None)})
                        walk(c)
                elif hasattr(v, 'nodeType') and v.nodeType == Node.ELEMENT_NODE:
                    if v.parentNode is not node and v.parentNode is not None:
                        # an element held in an attribute AND living somewhere else in the tree is reachable twice
                        raise Violation('C06|parsed|attribute-element-parent', {'holder': node.nodeName, 'attribute': k, 'element': v.nodeName,
                                                                                'parent': getattr(v.parentNode, 'nodeName', None)})
                    walk(v)
    walk(doc)


def execute_parsed(record, res):
    import signal
    from plasTeX.TeX import TeX

    def alarm(signum, frame):
        raise TimeoutError()
    viol = None
    log = []
    n = 0
    for op in record['ops']:
        if op.get('op') not in ('PARSE', 'PARSEFILE'):
            continue
        old = signal.signal(signal.SIGALRM, alarm)
        signal.alarm(60)
        cwd = os.getcwd()
        try:
            if op['op'] == 'PARSEFILE':
                path = os.path.join(core.REPO, op['rel'])
                os.chdir(os.path.dirname(path))
                tex = TeX(file=path)
            else:
                tex = TeX()
                tex.input('\\documentclass{%s}%s%s\\begin{document}%s%s\\end{document}'
                          % (op.get('cls', 'article'), ''.join('\\usepackage{%s}' % q for q in op.get('packages', [])), op.get('preamble', ''),
                             'Bare\\label{fzl1}\\label{sec1} ' if op.get('bare') else '\\section{S}\\label{fzl1}\\label{sec1}\n', ' '.join(op['items'])))
            doc = tex.parse()
        except BaseException as e:
            log.append(['raise', type(e).__name__])          # the input does not get through the parser: no tree to judge
            res['probes']['parsed_raise'] = 1
            continue
        finally:
            signal.alarm(0)
            signal.signal(signal.SIGALRM, old)
            os.chdir(cwd)
        n += 1
        try:
            check_parsed(doc)
            # reading the documented derived views of the nodes (what a renderer does) must leave the tree as it is
            touched = 0
            for node in list(getattr(doc, 'allChildNodes', [])):
                for attr in ('fullTitle', 'fullTocEntry', 'tocEntry', 'title', 'caption', 'textContent', 'source'):
                    try:
                        getattr(node, attr)
                        touched += 1
                    except Exception:
                        pass
            if touched:
                res['probes']['parsed_views_read'] = 1
                check_parsed(doc)
            log.append(['ok', len(doc.allChildNodes) if hasattr(doc, 'allChildNodes') else 0])
        except Violation as v:
            viol = {'sig': v.sig, 'detail': dict(v.detail, source=(op.get('rel') or ' '.join(op['items'])[:600]))}
            break
    res['violations'] = [viol] if viol else []
    res['probes']['parsed_tree'] = 1
    res['nontrivial'] = n > 0
    res['steps'] = n
    res['digest'] = core.hexdigest(record['ops'])
    res['log_digest'] = core.hexdigest(log)
    res['sub_evaluations'] = n
    res['sub_distinct'] = n
    return res


def execute(record):
    res = core.empty_result()
    if record.get('swarm', {}).get('parsed'):
        return execute_parsed(record, res)
    w = World()
    w._removed_once = []
    log = []
    npairs = record.get('swarm', {}).get('pairs', 6)
    viol = None
    executed = 0
    for k, op in enumerate(record['ops']):
        if op.get('op') == 'DFS':
            viol = run_dfs(record, [o for o in record['ops'][:k] if o.get('op') != 'DFS'], op.get('depth', 1), res)
            w.info['dfs_exhaustive'] = 1
            break
        try:
            w.apply(op)
            pr = core.h64(record.get('seed'), k)       # pair choice: pure function of (seed, step)
            pairs = [((pr >> (10 * j)) % 97, (pr >> (10 * j + 5)) % 89) for j in range(npairs)]
            w.check(pairs)
        except Violation as v:
            viol = {'sig': v.sig, 'detail': dict(v.detail, step=k, op=op)}
            break
        except Exception as e:
            import traceback
            tb = traceback.extract_tb(e.__traceback__)
            site = '%s:%s' % (tb[-1].filename.split('/')[-1], tb[-1].name) if tb else '?'
            if tb and '/sim/' in tb[-1].filename:
                raise
            viol = {'sig': 'C06|raise|%s|%s|%s' % (op['op'], type(e).__name__, site),
                    'detail': {'step': k, 'op': op, 'exception': repr(e), 'tree': w.root.digest()}}
            break
        executed += 1
        log.append(w.states[-1] if w.states else 0)
    if viol:
        res['violations'].append(viol)
    res['probes'] = dict((k, 1) for k in w.info)
    res['states'] = list(set(w.states) | set(res['states']))
    res['steps'] = executed

    def depth(m):
        return 1 + max([depth(c) for c in m.children] or [0])
    res['nontrivial'] = w.changed >= 2 and (depth(w.root) >= 3 or any(m.kind == 'f' and m.spent for m in w.nodes))
    res['digest'] = core.hexdigest(record['ops'])
    res['log_digest'] = core.hexdigest(log)
    return res


def simplify(record):
    if not record.get('swarm', {}).get('parsed'):
        return
    ops = record['ops']
    for i, op in enumerate(ops):
        if op.get('op') == 'PARSE':
            for k in range(len(op['items'])):
                yield dict(record, ops=ops[:i] + [dict(op, items=op['items'][:k] + op['items'][k + 1:])] + ops[i + 1:])
