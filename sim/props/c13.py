"""C13 - rendering splits the document into files without losing or repeating content.

Per run: one generated document whose every piece of body text is a unique
marker word (the generator records the owning sectioning unit of each marker)
and one configuration (split level, filename template from the documented
grammar, bad-chars, renderer/theme).  The job is rendered in three simulated
settings and only the job's OWN writes (SimFS write log) are judged:
 E0  forked lifetime, empty output directory;
 E1  exec'd lifetime: another PYTHONHASHSEED, permuted listdir/glob/walk
     results, simulated clock jumped, other cwd depth, TEXINPUTS/XHTMLTEMPLATES
     pointing at an empty directory;
 E2  history: the directory E0 left behind, after ANOTHER configuration of the
     same document was rendered into it (stale files present) and, in half of
     the runs, after 1-2 unrelated documents were processed in the same lifetime.
Invariants S1-S4: see DESIGN.md 5.3.
"""
import html.parser
import os
import re

from .. import core
from .. import lifetimes

PID = 'C13'

META = {
    'level': 'exploration',
    'runs': {'quick': 400, 'thorough': 12000},
    'batch': {'quick': 4, 'thorough': 10},
    'wall_cap': {'quick': 900, 'thorough': 3300},
    'rule': ('seeded (document, configuration) pairs, each rendered in three simulated settings (fresh fork; exec\'d '
             'interpreter with other hash seed / listing order / clock / cwd; dirty directory after another '
             'configuration and unrelated documents); non-trivial iff the document has >=2 file-producing units at '
             'the chosen split level and >=1 unit below it; distinct = digest of (document tree, configuration)'),
    'components': {
        'real': ['plasTeX.client.main', 'plasTeX.Compile', 'plasTeX.TeX', 'Renderers HTML5 (default, minimal themes), XHTML + templates',
                 'plasTeX.Filenames', 'Renderable.filename / __str__ / cacheFilenames', 'real directory tree'],
        'stub': ['wall clock (SimClock)', 'subprocess.Popen (failing recorder)', 'imagers disabled by configuration',
                 'directory listing order (permuted by SimFS)', 'PYTHONHASHSEED of exec\'d lifetimes (from the run seed)']},
    'assumptions': ['the generator\'s marker->unit bookkeeping is the reference for "which text belongs where"',
                    'normal form: the last alternative of every generated wildcard contains no variable but $num (the '
                    'documented fail-safe); template literals contain no bad-chars',
                    'text is extracted from the written .html files with html.parser; markers are unique words, so '
                    'navigation/TOC (which repeat titles only) cannot contribute body markers',
                    'the (input x configuration) product of the quantifier is sampled; the run-independence clause is what '
                    'the simulator adds'],
    'probe_names': ['no_failsafe_alternative_error', 'corpus_document', 'split_above_all_levels', 'split_below_all_levels', 'generated_id_unit', 'label_id_unit',
                    'same_title_prefix', 'empty_title', 'single_file_template', 'stale_same_name', 'unrelated_docs_before',
                    'footnote_in_subunit', 'exec_env', 'starred_unit', 'e2_history'],
    'shrink_budget': 60,
    'enum_batch': {'quick': 2, 'thorough': 2},
}
RUN_TIMEOUT = 3600
JOB = 'sim.props.c13:render_jobs'

LEVELS = {'article': [('section', 1), ('subsection', 2), ('subsubsection', 3), ('paragraph', 4)],
          'book': [('chapter', 0), ('section', 1), ('subsection', 2), ('subsubsection', 3)]}
DEFAULT_BAD = ': #$%^&*!~`"\'=?/{}[]()|<>;\\,.'


# --------------------------------------------------------------------------
# document generator

class Gen(object):
    def __init__(self, r):
        self.r = r
        self.n = 0

    def mk(self, prefix='mk'):
        self.n += 1
        return '%s%d' % (prefix, self.n)

    def body(self, depth=0):
        r = self.r
        items = []
        for _ in range(r.choice([0, 1, 1, 2, 3])):
            c = r.random()
            if c < 0.45:
                items.append(['para', [self.mk() for _ in range(r.randint(1, 3))]])
            elif c < 0.6:
                items.append(['footpara', self.mk(), self.mk('fk'), self.mk()])
            elif c < 0.72:
                items.append(['list', r.choice(['itemize', 'enumerate']), [self.mk() for _ in range(r.randint(1, 3))]])
            elif c < 0.8:
                items.append(['tabular', [self.mk(), self.mk()]])
            elif c < 0.88:
                items.append(['math', self.mk(), self.mk()])
            elif c < 0.94:
                items.append(['verbatim', self.mk('vk')])
            elif c < 0.955:
                items.append(['nested', self.mk(), self.mk(), self.mk()])
            elif c < 0.97:
                items.append(['figure', self.mk(), self.mk()])
            elif c < 0.973:
                items.append(['footlist', self.mk(), self.mk('fk'), self.mk()])
            elif c < 0.975:
                items.append(['tabempty'] + [self.mk() for _ in range(6)])            # rows that begin with an empty cell
            elif c < 0.977:
                items.append(['longtable'] + [self.mk() for _ in range(10)])          # two-row first head, body, last foot
            elif c < 0.9785:
                items.append(['hypertarget', self.mk(), self.mk(), self.mk()])        # (hyperref) paragraphs that are only a target / only a link
            elif c < 0.98:
                items.append(self.widetab(r))                                         # a table wide enough to be folded by the Text renderer
            elif c < 0.982:
                items.append(['footsame', self.mk(), self.mk('fk'), self.mk()])       # two footnotes with the very same text
            elif c < 0.984:
                items.append(['foottext', self.mk(), self.mk('fk'), self.mk()])       # \footnotetext without a mark
            elif c < 0.987:
                items.append(['footmarktext', self.mk(), self.mk('fk'), self.mk()])   # \footnotemark ... \footnotetext
            elif c < 0.99:
                items.append(['footquote', self.mk(), self.mk('fk'), self.mk()])      # a footnote inside a quote
            elif c < 0.995:
                items.append(['description', self.mk(), self.mk()])
            else:
                items.append(['quote', self.mk(), self.mk()])
        return items

    def widetab(self, r):
        """['widetab', rows]; a row is a list of cells; a cell is [head marker, number of filler words, filler
        length, tail marker or None].  The head marker is the first word of its cell, so head markers stay in
        row-major (document) order even when the Text renderer folds the cells; the tail markers ('wk') are the
        last words of their cells and are only counted (exactly once, in the right file), never ordered."""
        ncols = r.choice([3, 4, 5, 6, 6])
        flen = r.choice([4, 7, 7, 10, 14])
        rows = []
        for _ in range(r.choice([1, 2, 3])):
            row = []
            for c in range(ncols):
                nf = r.choice([0, 1, 2, 3, 5])
                if c == ncols - 1 and r.random() < 0.6:
                    nf = 0                                                            # a short last column
                row.append([self.mk(), nf, flen + r.choice([0, 0, 1, 3]), self.mk('wk') if nf else None])
            rows.append(row)
        return ['widetab', rows]

    def units(self, levels, li, titles):
        r = self.r
        out = []
        if li >= len(levels):
            return out
        for _ in range(r.choice([0, 1, 2, 2, 3]) if li > 0 else r.choice([1, 2, 3, 4])):
            kind, lvl = levels[li]
            if r.random() < 0.15 and li + 1 < len(levels):
                kind, lvl = levels[li + 1]           # skip a level
                sub = li + 2
            else:
                sub = li + 1
            c = r.random()
            if c < 0.12 and titles:
                title = r.choice(titles)             # repeated title -> uniqueness fallback in $title templates
            elif c < 0.2:
                title = 'Common prefix words ' + self.mk('tk')
            elif c < 0.24:
                title = ''
            elif c < 0.28:
                title = '?!: ' + self.mk('tk')
            else:
                title = self.mk('tk') + r.choice(['', ' two', ' two three four'])
            titles.append(title)
            u = {'kind': kind, 'level': lvl, 'star': r.random() < 0.15,
                 'label': (('L%d' % self.n) if r.random() < 0.85 else r.choice(['sect0002', 'sect2', 'index', 'f002', 'sec:a.b(c)', 'x y']))
                 if r.random() < 0.45 else None, 'title': title,
                 'body': self.body(), 'children': self.units(levels, sub, titles)}
            out.append(u)
        return out


def gen_document(r):
    cls = r.choice(['article', 'article', 'book'])
    g = Gen(r)
    levels = LEVELS[cls]
    if r.random() < 0.2:
        levels = [('part', -1)] + levels          # \part: a unit above chapters and sections
    doc = {'cls': cls, 'body': g.body(), 'children': g.units(levels, 0, [])}
    front = []
    if r.random() < 0.2:
        front.append(['abstract', g.mk()])
    if r.random() < 0.25:
        front.append(['toc'])                      # repeats TITLES (tk markers), never body text
    doc['body'] = front + doc['body']
    if r.random() < 0.15 and doc['children']:
        doc['appendix_before'] = r.randrange(len(doc['children']))      # \appendix before that top-level unit
    return doc


def render_body(items, out):
    for it in items:
        k = it[0]
        if k == 'para':
            out.append(' '.join(it[1]) + '.\n')
        elif k == 'footpara':
            out.append('%s\\footnote{%s} %s.\n' % (it[1], it[2], it[3]))
        elif k == 'list':
            out.append('\\begin{%s}\n%s\\end{%s}\n' % (it[1], ''.join('\\item %s\n' % m for m in it[2]), it[1]))
        elif k == 'tabular':
            out.append('\\begin{tabular}{ll}%s & %s\\end{tabular}\n' % (it[1][0], it[1][1]))
        elif k == 'math':
            out.append('%s $x+y$ and \\[z\\] %s.\n' % (it[1], it[2]))
        elif k == 'verbatim':
            out.append('\\begin{verbatim}\n%s\n\\end{verbatim}\n' % it[1])
        elif k == 'nested':
            out.append('\\begin{itemize}\\item %s\\begin{enumerate}\\item %s\\end{enumerate}\\item %s\\end{itemize}\n'
                       % (it[1], it[2], it[3]))
        elif k == 'figure':
            out.append('%s.\n\\begin{figure}\\caption{%s}\\end{figure}\n' % (it[1], it[2]))
        elif k == 'footlist':
            out.append('\\begin{itemize}\\item %s\\footnote{%s}\\item %s\\end{itemize}\n' % (it[1], it[2], it[3]))
        elif k == 'description':
            out.append('\\begin{description}\\item[%s] %s\\end{description}\n' % (it[1], it[2]))
        elif k == 'quote':
            out.append('\\begin{quote}%s\\end{quote}\n\\begin{center}%s\\end{center}\n' % (it[1], it[2]))
        elif k == 'tabempty':
            out.append('\\begin{tabular}{lll} & %s & %s \\\\ %s & %s & %s \\\\ & %s & \\end{tabular}\n' % tuple(it[1:7]))
        elif k == 'hypertarget':
            out.append('\n\n\\hypertarget{h%s}{%s}\n\n\\hyperlink{h%s}{%s}\n\n%s \\phantomsection after.\n\n' % (it[1], it[1], it[1], it[2], it[3]))
        elif k == 'widetab':
            out.append('\\begin{tabular}{%s}\n%s\\end{tabular}\n' % ('l' * len(it[1][0]), ''.join(
                ' & '.join(' '.join([cell[0]] + ['x' * cell[2]] * cell[1] + ([cell[3]] if cell[3] else [])) for cell in row) + ' \\\\\n'
                for row in it[1])))
        elif k == 'longtable':
            out.append('\\begin{longtable}{ll}\\caption{long table}\\\\ %s & %s \\\\ %s & %s \\\\ \\endfirsthead cont & cont \\\\ \\endhead '
                       'contfoot & contfoot \\\\ \\endfoot %s & %s \\\\ \\endlastfoot %s & %s \\\\ %s & %s \\\\ \\end{longtable}\n'
                       % (it[1], it[2], it[3], it[4], it[9], it[10], it[5], it[6], it[7], it[8]))
        elif k == 'footsame':
            out.append('%s\\footnote{%s} %s\\footnote{%s}.\n' % (it[1], it[2], it[3], it[2]))
        elif k == 'foottext':
            out.append('%s\\footnotetext{%s} %s.\n' % (it[1], it[2], it[3]))
        elif k == 'footmarktext':
            out.append('%s\\footnotemark{} %s\\footnotetext{%s}.\n' % (it[1], it[3], it[2]))
        elif k == 'footquote':
            out.append('\\begin{quote}%s\\footnote{%s} %s\\end{quote}\n' % (it[1], it[2], it[3]))
        elif k == 'abstract':
            out.append('\\begin{abstract}%s abstract\\end{abstract}\n' % it[1])
        elif k == 'toc':
            out.append('\\tableofcontents\n')
        out.append('\n')


def render_units(units, out, appendix_before=None):
    for j, u in enumerate(units):
        if appendix_before is not None and j == appendix_before:
            out.append('\\appendix\n')
        out.append('\\%s%s{%s}%s\n' % (u['kind'], '*' if u['star'] else '', u['title'],
                                       ('\\label{%s}' % u['label']) if u['label'] else ''))
        render_body(u['body'], out)
        render_units(u['children'], out)


def _uses(doc, kind):
    def inbody(items):
        return any(it[0] == kind for it in items)

    def walk(us):
        return any(inbody(u['body']) or walk(u['children']) for u in us)
    return inbody(doc['body']) or walk(doc['children'])


def doc_source(doc):
    out = ['\\documentclass{%s}\n%s\\begin{document}\n' % (doc['cls'], ('\\usepackage{longtable}\n' if _uses(doc, 'longtable') else '') +
                                                                ('\\usepackage{hyperref}\n' if _uses(doc, 'hypertarget') else ''))]
    render_body(doc['body'], out)
    render_units(doc['children'], out, doc.get('appendix_before'))
    out.append('\\end{document}\n')
    return ''.join(out)


def body_markers(items):
    """-> (body markers in order, footnote markers in order)"""
    b, f = [], []
    for it in items:
        k = it[0]
        if k == 'para':
            b.extend(it[1])
        elif k == 'footpara':
            b.append(it[1]); f.append(it[2]); b.append(it[3])
        elif k == 'list':
            b.extend(it[2])
        elif k == 'tabular':
            b.extend(it[1])
        elif k == 'math':
            b.extend([it[1], it[2]])
        elif k == 'verbatim':
            b.append(it[1])
        elif k == 'nested':
            b.extend(it[1:4])
        elif k in ('figure', 'description', 'quote'):
            b.extend(it[1:3])
        elif k == 'hypertarget':
            b.extend(it[1:4])
        elif k in ('footlist', 'foottext', 'footmarktext', 'footquote'):
            b.append(it[1]); f.append(it[2]); b.append(it[3])
        elif k == 'footsame':
            b.append(it[1]); f.append(it[2]); b.append(it[3]); f.append(it[2])
        elif k == 'tabempty':
            b.extend(it[1:7])
        elif k == 'widetab':
            for row in it[1]:
                for cell in row:
                    b.append(cell[0])
                    if cell[3]:
                        b.append(cell[3])
        elif k == 'longtable':
            b.extend(it[1:11])            # first head (2 rows), body (2 rows), last foot - the continuation head/foot carry no marker
        elif k == 'abstract':
            b.append(it[1])
    return b, f


def flat_units(doc):
    out = []

    def walk(us):
        for u in us:
            out.append(u)
            walk(u['children'])
    walk(doc['children'])
    return out


def expected_groups(doc, split, single_file, endnotes=False):
    """Partition of the markers into files: one group per file-producing unit
    (the document itself always produces one), each = (body markers in document
    order, footnote markers in document order, unit).  Nesting follows LaTeX:
    a unit belongs to the nearest preceding unit of a smaller level (the
    generator may skip levels, so its own tree is not authoritative)."""
    top = ([], [], None)
    groups = [top]
    b, f = body_markers(doc['body'])
    top[0].extend(b)
    top[1].extend(f)
    stack = []          # (level, group that text inside this unit goes to)
    for u in flat_units(doc):
        while stack and stack[-1][0] >= u['level']:
            stack.pop()
        parent_group = stack[-1][1] if stack else top
        if (not single_file) and u['level'] <= split:
            g = ([], [], u)
            groups.append(g)
        else:
            g = parent_group
        b, f = body_markers(u['body'])
        g[0].extend(b)
        (top if endnotes else g)[1].extend(f)      # (the Text renderer prints every footnote at the end of the DOCUMENT's file)
        stack.append((u['level'], g))
    return groups


# --------------------------------------------------------------------------
# configuration generator

def gen_template(r):
    """-> (template string, single_file)"""
    c = r.random()
    if c < 0.08:
        return r.choice(['everything', 'single', 'onefile']), True
    static = r.sample(['index', 'toc', 'front'], r.choice([0, 1, 1, 2]))
    alts = []
    for _ in range(r.choice([0, 1, 1, 2, 3])):
        a = r.choice(['$id', '$title', '$title(1)', '$title(2)', '$title(3)', 'x-$id', '$id-s', '${title}_t', '$name-$id',
                      'u$title(1)', '$ref', 's$num-$id'])
        alts.append(a)
    if not (alts and r.random() < 0.1):
        alts.append(r.choice(['sect$num', 'sect$num(4)', 'f$num(3)', '$num', 'file-$num(2)']))
    # (else: no numbered fail-safe alternative - a unit without a usable variable makes the run END WITH AN ERROR,
    #  it must not silently stay in its parent's file)
    prefix = r.choice(['', '', '', 'p_'])
    suffix = r.choice(['', '', '', '-x'])
    if static and r.random() < 0.12:
        static.insert(r.randrange(len(static) + 1), r.choice(static))      # the same static name twice
    if r.random() < 0.3:
        # explicit extensions (the generator must compare names WITH the default extension added)
        static = [n + '.html' if r.random() < 0.6 else n for n in static]
        if not prefix and not suffix:
            import re as _re
            # (never an alternative whose stem can be empty: '.html' alone would get the extension a second time)
            alts = [a + '.html' if r.random() < 0.4 and ('$num' in a or '$id' in a or _re.sub(r'\$\{?\w+\}?(\(\d\))?', '', a)) else a for a in alts]
    wild = '%s[%s]%s' % (prefix, ', '.join(alts), suffix)
    return ' '.join(static + [wild]), False


def has_failsafe(tpl):
    """True if the wildcard has an alternative whose only variable is $num (a name can always be formed)."""
    import re
    m = re.search(r'\[([^\]]*)\]', tpl)
    if not m:
        return False
    for alt in m.group(1).split(','):
        vs = set(re.findall(r'\$\{?(\w+)\}?', alt))
        if vs == set(['num']):
            return True
    return False


def collide_labels(r, doc, tpl):
    """With some probability one label of the document is renamed to a name the template also produces by
    another route: the stem of a static name, or the first numbered candidates."""
    import re
    units = []

    def walk(us):
        for u in us:
            if u.get('label'):
                units.append(u)
            walk(u['children'])
    walk(doc['children'])
    if not units or r.random() > 0.25:
        return
    pool = [w.split('.')[0] for w in tpl.split('[')[0].split() if w]
    m = re.search(r'([A-Za-z_-]*)\$num(?:\((\d)\))?', tpl)
    if m:
        for k in (1, 2, 3):
            pool.append('%s%s' % (m.group(1), str(k).zfill(int(m.group(2) or 1))))
    pool = [x for x in pool if x and re.match(r'^[A-Za-z0-9_-]+$', x)]
    if not pool:
        return
    taken = set(u['label'] for u in units)
    u = r.choice(units)
    lab = r.choice(pool)
    if lab not in taken:
        u['label'] = lab


def generate(seed, tier):
    R = core.Rngs(seed)
    r = R('doc')
    doc = gen_document(r)
    rc = R('config')
    tpl, single = gen_template(rc)
    collide_labels(R('collide'), doc, tpl)
    bad = rc.choice([None, None, DEFAULT_BAD.replace(' ', ''), ':/', '', ' :.', ':. '])       # (a blank first or last in the option value)
    cfg = {'split': rc.choice([-10, -2, -1, 0, 0, 1, 1, 2, 2, 3, 3, 4, 5, 6]), 'template': tpl, 'single': single,
           'bad': bad, 'badsub': rc.choice(['-', '-', '_']),
           'renderer': rc.choice([['HTML5', 'default'], ['HTML5', 'default'], ['HTML5', 'minimal'], ['XHTML', 'default'], ['Text', 'default']])}
    tpl2, single2 = gen_template(rc)
    other = dict(cfg, split=rc.choice([-10, 0, 1, 2, 3, 5]), template=tpl2, single=single2)
    re_ = R('env')
    env = {'hashseed': re_.randrange(1, 1 << 30), 'perm': re_.randrange(1 << 30), 'dclock': re_.choice([1, 3600, 86400, 400 * 86400, -86400]),
           'cwd_depth': re_.randint(0, 3), 'outdir': re_.choice(['out', 'o', 'my out dir', 'x/y']),
           'unrelated': re_.choice([0, 0, 1, 2]), 'useexec': re_.random() < 0.5}
    ops = [{'op': 'DOC', 'doc': doc}, {'op': 'E0'}, {'op': 'E1'}, {'op': 'E2'}]
    return {'property': PID, 'seed': seed, 'swarm': {'cfg': cfg, 'other': other, 'env': env}, 'ops': ops}


# --------------------------------------------------------------------------
# inside the lifetime

def render_jobs(args, fs):
    """Runs a list of jobs in this lifetime; returns per job the html files it
    wrote (content), the names issued by the renderer, exceptions."""
    import plasTeX.client
    import plasTeX.Renderers
    from sim.lifetimes import SimClock
    root = os.getcwd()
    results = []
    issued = {}
    real_cleanup = plasTeX.Renderers.Renderer.cleanup

    def cleanup(self, document, files, postProcess=None):
        issued['files'] = list(files)
        return real_cleanup(self, document, files, postProcess=postProcess)

    plasTeX.Renderers.Renderer.cleanup = cleanup
    if args.get('copydir'):
        # a multi-file document of the corpus: its \input files, class files and pictures (data, copied by the harness)
        import shutil
        for dirpath, dirnames, filenames in os.walk(args['copydir']):
            dirnames.sort()
            reld = os.path.relpath(dirpath, args['copydir'])
            os.makedirs(reld, exist_ok=True)
            for fn in sorted(filenames):
                dst = os.path.join(reld, fn)
                if not os.path.exists(dst):
                    shutil.copyfile(os.path.join(dirpath, fn), dst)
    for job in args['jobs']:
        os.chdir(root)
        SimClock.now = job['clock']
        with open(job['name'] + '.tex', 'w') as f:
            f.write(job['src'])
        cfg = job['cfg']
        argv = ['--renderer', cfg['renderer'][0], '--theme', cfg['renderer'][1], '--imager', 'none', '--vector-imager', 'none',
                '--split-level', str(cfg['split']), '--filename', cfg['template'], '--dir', job['outdir'],
                '--bad-filename-chars-sub', cfg['badsub']]
        if cfg['bad'] is not None:
            argv += ['--bad-filename-chars', cfg['bad'].replace('%', '%%')]   # option values are %-interpolated
        argv.append(job['name'] + '.tex')
        w0 = len(fs.writes)
        issued.clear()
        out = {'name': job['name'], 'ok': True}
        try:
            plasTeX.client.main(argv)
        except BaseException as e:
            import traceback
            out.update(ok=False, exception=type(e).__name__, message=str(e)[:300], traceback=traceback.format_exc()[-1500:])
        os.chdir(root)
        out['issued'] = issued.get('files')
        written = fs.writes[w0:]
        out['writes'] = written
        files = {}
        prefix = os.path.relpath(os.path.join(root, job['outdir']), fs.root).rstrip('/') + '/'
        if prefix.startswith('./'):
            prefix = prefix[2:]
        for rel in sorted(set(written)):
            if rel in fs.copied or rel.endswith('.paux'):
                continue        # theme assets copied verbatim, and the label file: not renderings of the document
            if not rel.startswith(prefix):
                continue
            try:
                with lifetimes._real['open'](os.path.join(fs.root, rel), 'rb') as f:
                    files[rel[len(prefix):]] = f.read().decode('utf-8', 'replace')
            except Exception as e:
                files[rel[len(prefix):]] = 'UNREADABLE:%s' % type(e).__name__
        out['files'] = files
        results.append(out)
    return results


# --------------------------------------------------------------------------
# simulator side

class _Text(html.parser.HTMLParser):
    def __init__(self):
        html.parser.HTMLParser.__init__(self, convert_charrefs=True)
        self.out = []
        self.skip = 0

    def handle_starttag(self, tag, attrs):
        if tag in ('script', 'style', 'title'):
            self.skip += 1

    def handle_endtag(self, tag):
        if tag in ('script', 'style', 'title') and self.skip:
            self.skip -= 1

    def handle_data(self, data):
        if not self.skip:
            self.out.append(data)


MARK = re.compile(r'\b(mk|fk|vk|wk)(\d+)\b')


MARK_ABUT = re.compile(r'(mk|fk|vk|wk)(\d+)')


def markers_of(htmltext, abut=False):
    """abut: the Text renderer may print two folded table cells with no blank between them ('mk14mk16'): the text
    is all there, so markers are then recognised without word boundaries (fillers are runs of 'x', never a prefix)."""
    p = _Text()
    p.feed(htmltext)
    text = ' '.join(p.out)
    return [m.group(0) for m in (MARK_ABUT if abut else MARK).finditer(text)]


def prepare():
    lifetimes.pristine_parent()


def _unrelated(k):
    return ('\\documentclass{article}\\usepackage{hyperref}\\begin{document}\\section{Other %d}\\label{o%d}\\parindent=3pt '
            'Unrelated u%d $x$ \\begin{itemize}\\item a\\end{itemize}\\subsection{Deep}text\\end{document}\n' % (k, k, k))


def judge_names_only(cfg, out):
    """Documents of the repository's own test corpus carry no markers: only the name clauses (S3) and,
    through the summary, run independence (S4) are judged."""
    if not out['ok']:
        return None, None                       # outside the premise (needs files that are not there)
    issued = out.get('issued') or []
    files = out['files']
    if len(issued) != len(set(issued)):
        return ({'sig': 'C13|names|duplicate', 'detail': {'issued': issued}}, None)
    if sorted(issued) != sorted(files):
        return ({'sig': 'C13|names|issued-vs-written', 'detail': {'issued': sorted(issued), 'written': sorted(files)}}, None)
    text = dict((n, ' '.join(markers_words(t))) for n, t in files.items())
    return None, {'names': sorted(files), 'marker_file': text}


def markers_words(htmltext):
    p = _Text()
    p.feed(htmltext)
    return ' '.join(p.out).split()


def judge(doc, cfg, out, info):
    """S1-S3 on one job's own writes -> (violation|None, summary for S4)."""
    if doc.get('corpus'):
        return judge_names_only(cfg, out)
    if not out['ok']:
        return ({'sig': 'C13|raise|%s|%s' % (_site(out.get('traceback', '')), out.get('exception')),
                 'detail': {'exception': out.get('exception'), 'message': out.get('message'),
                            'traceback': out.get('traceback', '')[-1000:]}}, None)
    files = out['files']
    per_file = dict((name, markers_of(text, abut=(cfg['renderer'][0] == 'Text'))) for name, text in files.items())
    groups = expected_groups(doc, cfg['split'], cfg['single'], endnotes=(cfg['renderer'][0] == 'Text'))
    allm = []
    for g in groups:
        allm.extend(g[0] + g[1])
    # S2: every marker exactly once in exactly one written file
    count = {}
    for name, ms in per_file.items():
        for m in ms:
            count.setdefault(m, []).append(name)
    for m in allm:
        where = count.get(m, [])
        want = allm.count(m)             # (two footnotes may carry the very same text: then it is printed twice)
        if len(where) < want:
            return ({'sig': 'C13|lost|%s' % m[:2], 'detail': {'marker': m, 'files': sorted(per_file), 'expected_times': want, 'found': where}}, None)
        if len(where) > want:
            cls = 'repeated-in-file' if len(set(where)) == 1 else 'repeated-across-files'
            return ({'sig': 'C13|%s|%s' % (cls, m[:2]), 'detail': {'marker': m, 'where': where}}, None)
    # S1 + order: the partition of markers into files is the expected one
    if cfg['renderer'][0] == 'Text':
        # a folded text table prints line k of every cell of a row side by side: the tail markers ('wk') of wide
        # cells are then legitimately not in document order; they are counted (S2) and placed (membership), not ordered
        def _fold(seq):
            return [m for m in seq if not m.startswith('wk')] + sorted(m for m in seq if m.startswith('wk'))
    else:
        def _fold(seq):
            return list(seq)
    exp_seqs = sorted([_fold(g[0] + g[1]) for g in groups])
    got_seqs = sorted(_fold(v) for v in per_file.values())
    if len(per_file) != len(groups):
        return ({'sig': 'C13|partition|file-count', 'detail': {'expected_files': len(groups), 'written': sorted(per_file),
                                                                 'split': cfg['split'], 'template': cfg['template']}}, None)
    if exp_seqs != got_seqs:
        # classify: same sets but another order / footnote position, or wrong membership
        if sorted(sorted(x) for x in exp_seqs) == sorted(sorted(x) for x in got_seqs):
            bad = [x for x in got_seqs if x not in exp_seqs][0]
            cls = 'footnote-position' if [m for m in bad if not m.startswith('fk')] == \
                [m for e in exp_seqs if sorted(e) == sorted(bad) for m in e if not m.startswith('fk')] else 'order'
            return ({'sig': 'C13|partition|%s' % cls, 'detail': {'got': bad, 'expected': [e for e in exp_seqs if sorted(e) == sorted(bad)]}}, None)
        return ({'sig': 'C13|partition|membership', 'detail': {'expected': exp_seqs, 'got': per_file,
                                                                 'split': cfg['split'], 'template': cfg['template']}}, None)
    # S3: issued names pairwise distinct, free of forbidden characters
    issued = out.get('issued') or []
    if len(issued) != len(set(issued)):
        return ({'sig': 'C13|names|duplicate', 'detail': {'issued': issued}}, None)
    bad = cfg['bad'] if cfg['bad'] is not None else DEFAULT_BAD
    for n in issued:
        stem = n[:-len('.html')] if n.endswith('.html') else (n[:-len('.txt')] if n.endswith('.txt') else n)
        lit = re.sub(r'[A-Za-z0-9_-]', '', stem)
        if any(ch in bad for ch in lit):
            return ({'sig': 'C13|names|forbidden-char', 'detail': {'name': n, 'bad': bad}}, None)
    if sorted(issued) != sorted(per_file):
        return ({'sig': 'C13|names|issued-vs-written', 'detail': {'issued': sorted(issued), 'written': sorted(per_file)}}, None)
    if len(groups) >= 2:
        info['multi_file'] = 1
    marker_file = {}
    for name, ms in per_file.items():
        for m in ms:
            marker_file[m] = name
    return None, {'names': sorted(per_file), 'marker_file': marker_file}


def _site(tb):
    site = '?'
    for line in tb.splitlines():
        line = line.strip()
        if line.startswith('File "') and '/plasTeX/' in line:
            try:
                site = '%s:%s' % (line.split('"')[1].split('/plasTeX/')[1], line.rsplit(' in ', 1)[1])
            except Exception:
                pass
    return site


def execute(record):
    res = core.empty_result()
    sw = record['swarm']
    cfg, other, env = sw['cfg'], sw['other'], sw['env']
    docs = [o['doc'] for o in record['ops'] if o.get('op') == 'DOC']
    settings = [o['op'] for o in record['ops'] if o.get('op') in ('E0', 'E1', 'E2')]
    info, viol, log = {}, [], []
    if not docs:
        res['digest'] = res['log_digest'] = core.hexdigest([])
        return res
    doc = docs[0]
    if doc.get('corpus'):
        try:
            with open(os.path.join(core.REPO, doc['corpus']), encoding='utf-8') as f:
                src = f.read()
        except OSError:
            src = '\\documentclass{article}\\begin{document}missing\\end{document}\n'
    else:
        src = doc_source(doc)
    root = lifetimes.make_root('c13')
    clock = lifetimes.T0 + 5000
    summaries = {}
    try:
        def lifetime(jobs, sub, mode='fork', perm=None, cwd_depth=0, environ=None):
            base = os.path.join(root, sub)
            cwd = os.path.join(base, *['d%d' % k for k in range(cwd_depth)]) if cwd_depth else base
            os.makedirs(cwd, exist_ok=True)
            e = {'HOME': base, 'TEXINPUTS': base}
            e.update(environ or {})
            setup = {'root': base, 'cwd': cwd, 'clock': clock, 'perm_seed': perm, 'env': {'environ': e}}
            copydir = os.path.join(core.REPO, os.path.dirname(doc['corpus'])) if doc.get('withdir') else None
            st, out = lifetimes.run_lifetime(JOB, {'jobs': jobs, 'copydir': copydir}, setup, mode=mode, hashseed=env["hashseed"], timeout=900)
            if st != 'ok' or not out.get('ok'):
                raise core.HarnessError('render lifetime failed: %s' % (out and out.get('traceback')))
            return out['result']

        job = {'name': 'doc', 'src': src, 'cfg': cfg, 'outdir': 'out', 'clock': clock}
        for s in settings:
            if s == 'E0':
                outs = lifetime([job], 'w')
                out = outs[-1]
            elif s == 'E1':
                info['exec_env'] = 1
                empty = os.path.join(root, 'empty')
                os.makedirs(empty, exist_ok=True)
                j1 = dict(job, outdir=env['outdir'], clock=clock + env['dclock'])
                outs = lifetime([j1], 'e1', mode='exec' if env.get('useexec') else 'fork', perm=env['perm'],
                                cwd_depth=env['cwd_depth'], environ={'TEXINPUTS': empty + os.pathsep, 'XHTMLTEMPLATES': empty,
                                                                     'HTML5TEMPLATES': empty})
                out = outs[-1]
            else:
                info['e2_history'] = 1
                jobs = [dict(job, cfg=other)]
                for k in range(env['unrelated']):
                    jobs.append({'name': 'unrel%d' % k, 'src': _unrelated(k), 'cfg': dict(other, template='index [$id, sect$num(4)]', single=False),
                                 'outdir': 'unrel%d' % k, 'clock': clock + 10})
                    info['unrelated_docs_before'] = 1
                jobs.append(job)
                outs = lifetime(jobs, 'w')           # same root as E0: the directory E0 left behind
                out = outs[-1]
                if outs[0]['ok'] and set(outs[0]['files']) & set(out['files']):
                    info['stale_same_name'] = 1
            if (not out['ok'] and out.get('exception') == 'ValueError' and 'Filename could not be created' in (out.get('message') or '')
                    and not has_failsafe(cfg['template']) and not doc.get('corpus')):
                # the documented outcome when no name can be formed (C15 judges the generator itself): no files to judge
                info['no_failsafe_alternative_error'] = 1
                log.append([s, 'no-name-error'])
                continue
            v, summ = judge(doc, cfg, out, info)
            log.append([s, out['ok'], core.hexdigest(out.get('files')), out.get('issued')])
            if v is not None:
                v['sig'] = v['sig'] + ('' if s == 'E0' else '|only-' + s if 'E0' in summaries else '')
                v['detail'].update(setting=s, split=cfg['split'], template=cfg['template'], renderer=cfg['renderer'], bad=cfg['bad'])
                viol.append(v)
                break
            summaries[s] = summ
        # S4 run independence
        if not viol and len(summaries) >= 2:
            base = summaries.get('E0') or list(summaries.values())[0]
            for s, summ in summaries.items():
                if summ['names'] != base['names']:
                    viol.append({'sig': 'C13|run-independence|names|%s' % s,
                                 'detail': {'E0': base['names'], s: summ['names'], 'template': cfg['template'], 'env': env}})
                    break
                if summ['marker_file'] != base['marker_file']:
                    viol.append({'sig': 'C13|run-independence|marker-file|%s' % s, 'detail': {'env': env}})
                    break
    finally:
        lifetimes.remove_root(root)
    if doc.get('corpus'):
        res['violations'] = viol
        res['probes'] = dict((k, 1) for k in info)
        res['probes']['corpus_document'] = 1
        res['nontrivial'] = len(summaries) >= 2
        res['steps'] = len(settings)
        res['digest'] = core.hexdigest([doc, cfg])
        res['log_digest'] = core.hexdigest(log)
        return res
    # probes
    lv = [u['level'] for u in _all_units(doc)]
    if lv and cfg['split'] >= max(lv):
        info['split_above_all_levels'] = 1
    if lv and cfg['split'] < min(lv):
        info['split_below_all_levels'] = 1
    for u in _all_units(doc):
        if u['label']:
            info['label_id_unit'] = 1
        else:
            info['generated_id_unit'] = 1
        if u['title'] == '':
            info['empty_title'] = 1
        if u['title'].startswith('Common prefix'):
            info['same_title_prefix'] = 1
        if u['star']:
            info['starred_unit'] = 1
        if any(it[0] == 'footpara' for it in u['body']) and u['level'] > cfg['split']:
            info['footnote_in_subunit'] = 1
    if cfg['single']:
        info['single_file_template'] = 1
    res['violations'] = viol
    res['probes'] = dict((k, 1) for k in info)
    groups = expected_groups(doc, cfg['split'], cfg['single'], endnotes=(cfg['renderer'][0] == 'Text'))
    res['nontrivial'] = len(groups) >= 3 and any(u['level'] > cfg['split'] for u in _all_units(doc))
    res['sim_time'] = float(abs(env['dclock']))
    res['steps'] = len(settings)
    res['digest'] = core.hexdigest([doc, cfg])
    res['log_digest'] = core.hexdigest(log)
    res['states'] = [core.h64(core.hexdigest([len(g[0]) for g in groups]), cfg['split'])]
    return res


CORPUS = ['unittests/amsthm/source.tex', 'unittests/sources/floats.tex', 'unittests/sources/Alignment.tex',
          'unittests/sources/cancel.tex', 'unittests/sources/align.tex', 'unittests/sources/footnotes.tex',
          'unittests/Packages/sources/natbib.tex', 'unittests/Packages/sources/pifont.tex', 'unittests/Packages/sources/bib.tex',
          'unittests/Packages/sources/textcomp.tex', 'unittests/Packages/sources/babel.tex', 'unittests/Packages/sources/multibib.tex']


COLLISIONS = [
    # (template, labels of the three sections): a label equals a name the template also forms by another route
    ('index.html [$id, sect$num(4)]', ['index', 'La', 'Lb']),
    ('index [$id.html, sect$num(4)]', ['La', 'index', 'Lb']),
    ('index toc.html [$id, sect$num(4)]', ['toc', 'index', 'Lb']),
    ('[$id, sect$num(4).html]', ['sect0001', 'La', None]),
    ('[$id, sect$num(4).html]', [None, 'sect0001', None]),
    ('[$id.html, sect$num(4)]', [None, 'sect0002', 'sect0001']),
    ('index [$id, sect$num]', ['sect1', None, 'sect2']),
    ('index [$id, $title(1), f$num(2)]', ['f01', None, None]),
    ('index.html [u$title(1).html, $id, f$num(2)]', [None, 'f01', 'index']),
    # the same static name twice (the second one is taken already and must be skipped)
    ('index index.html [$id, sect$num(4)]', [None, 'La', None]),
    ('index index [$id, sect$num(4)]', ['Lb', None, None]),
    ('toc.html index toc [sect$num(2)]', [None, None, None]),
]


def collision_doc(labels):
    g = Gen(None)
    units = []
    for k, lab in enumerate(labels):
        sub = {'kind': 'subsection', 'level': 2, 'star': False, 'label': None, 'title': g.mk('tk'), 'body': [['para', [g.mk()]]], 'children': []}
        units.append({'kind': 'section', 'level': 1, 'star': False, 'label': lab, 'title': '' if k == 1 else g.mk('tk'),
                      'body': [['para', [g.mk(), g.mk()]]], 'children': [sub]})
    return {'cls': 'article', 'body': [['para', [g.mk()]]], 'children': units}


def enumerate_cases(base_seed, tier):
    """Name-collision cases (labels equal to names the template forms by another route), and the repository's own
    test documents under a few configurations (names and run independence only)."""
    import random
    out = []
    # footnote shapes: \footnotetext with and without a mark, a footnote inside a quote - under every renderer
    for k, rend in enumerate([['HTML5', 'default'], ['HTML5', 'minimal'], ['XHTML', 'default'], ['Text', 'default']]):
        for split in ((0, 1, 2) if tier == 'thorough' else (1,)):
            g = Gen(None)
            rw = random.Random(core.h64('C13-wide', base_seed, k, split))
            secs = []
            for shapes in (['foottext', 'footquote', 'footsame'], ['footmarktext', 'foottext'], ['footquote', 'footsame']):
                body = [['para', [g.mk()]]] + [[sh, g.mk(), g.mk('fk'), g.mk()] for sh in shapes] + [['footpara', g.mk(), g.mk('fk'), g.mk()]]
                body += [['tabempty'] + [g.mk() for _ in range(6)], ['longtable'] + [g.mk() for _ in range(10)], g.widetab(rw)]
                if len(secs) == 1:
                    body.append(['hypertarget', g.mk(), g.mk(), g.mk()])
                secs.append({'kind': 'section', 'level': 1, 'star': False, 'label': None, 'title': g.mk('tk'), 'body': body, 'children': []})
            fdoc = {'cls': 'article', 'body': [['footquote', g.mk(), g.mk('fk'), g.mk()]], 'children': secs}
            r = random.Random(core.h64('C13-foot', base_seed, k, split))
            cfg = {'split': split, 'template': 'index [$id, sect$num(4)]', 'single': False, 'bad': None, 'badsub': '-', 'renderer': rend}
            other = dict(cfg, split=0, template='front [$id, x$num(2)]')
            env = {'hashseed': r.randrange(1, 1 << 30), 'perm': r.randrange(1 << 30), 'dclock': 3600, 'cwd_depth': 0,
                   'outdir': 'out', 'unrelated': 0, 'useexec': False}
            out.append({'property': PID, 'seed': core.h64('C13-foot', k, split), 'swarm': {'cfg': cfg, 'other': other, 'env': env},
                        'ops': [{'op': 'DOC', 'doc': fdoc}, {'op': 'E0'}]})
    for k, (tpl, labels) in enumerate(COLLISIONS):
        for split in ((1, 2) if tier == 'thorough' else (1,)):
            r = random.Random(core.h64('C13-collide', base_seed, k, split))
            cfg = {'split': split, 'template': tpl, 'single': False, 'bad': None, 'badsub': '-', 'renderer': ['HTML5', 'default']}
            other = dict(cfg, split=0, template='front [$id, x$num(2)]')
            env = {'hashseed': r.randrange(1, 1 << 30), 'perm': r.randrange(1 << 30), 'dclock': 3600, 'cwd_depth': 0,
                   'outdir': 'out', 'unrelated': 0, 'useexec': False}
            out.append({'property': PID, 'seed': core.h64('C13-collide', k, split), 'swarm': {'cfg': cfg, 'other': other, 'env': env},
                        'ops': [{'op': 'DOC', 'doc': collision_doc(labels)}, {'op': 'E0'}, {'op': 'E1'}]})
    cfgs = [(2, 'index [$id, sect$num(4)]'), (1, '[$title(2), sect$num(3)]'), (0, 'index [$id, $title(3), f$num]'), (3, '[$ref, $id, s$num]')]
    corpus = [(rel, False) for rel in CORPUS] + ([('Doc/plastex.tex', True)] if tier == 'thorough' else [])   # (the manual: 18 input files, ~100 output files)
    for k, (rel, withdir) in enumerate(corpus):
        for j, (split, tpl) in enumerate(cfgs if tier == 'thorough' else cfgs[:2]):
            r = random.Random(core.h64('C13-corpus', base_seed, k, j))
            cfg = {'split': split, 'template': tpl, 'single': False, 'bad': None, 'badsub': '-', 'renderer': ['HTML5', 'default']}
            other = dict(cfg, split=0, template='front [$id, x$num(2)]')
            env = {'hashseed': r.randrange(1, 1 << 30), 'perm': r.randrange(1 << 30), 'dclock': 86400, 'cwd_depth': 1,
                   'outdir': 'o', 'unrelated': 1, 'useexec': True}
            out.append({'property': PID, 'seed': core.h64('C13-corpus', k, j), 'swarm': {'cfg': cfg, 'other': other, 'env': env},
                        'ops': [{'op': 'DOC', 'doc': dict({'corpus': rel}, **({'withdir': True} if withdir else {}))}, {'op': 'E0'}, {'op': 'E1'}, {'op': 'E2'}]})
    return out


def _all_units(doc):
    out = []

    def walk(us):
        for u in us:
            out.append(u)
            walk(u['children'])
    walk(doc['children'])
    return out


def simplify(record):
    ops = record['ops']
    for i, op in enumerate(ops):
        if op.get('op') != 'DOC' or op['doc'].get('corpus'):
            continue
        doc = op['doc']

        def variants(units):
            for k in range(len(units)):
                yield units[:k] + units[k + 1:]
                u = units[k]
                if u['children']:
                    yield units[:k] + u['children'] + units[k + 1:]
                    for sub in variants(u['children']):
                        yield units[:k] + [dict(u, children=sub)] + units[k + 1:]
                if u['body']:
                    for b in range(len(u['body'])):
                        yield units[:k] + [dict(u, body=u['body'][:b] + u['body'][b + 1:])] + units[k + 1:]
                if u['star'] or u['label'] or ' ' in u['title']:
                    yield units[:k] + [dict(u, star=False, label=None, title=u['title'].split()[0] if u['title'].split() else 't')] + units[k + 1:]
        for v in variants(doc['children']):
            yield dict(record, ops=ops[:i] + [dict(op, doc=dict(doc, children=v))] + ops[i + 1:])
        for b in range(len(doc['body'])):
            yield dict(record, ops=ops[:i] + [dict(op, doc=dict(doc, body=doc['body'][:b] + doc['body'][b + 1:]))] + ops[i + 1:])
    sw = record['swarm']
    cfg = sw['cfg']
    if cfg['template'] != 'index [$id, sect$num(4)]' and not cfg['single']:
        yield dict(record, swarm=dict(sw, cfg=dict(cfg, template='index [$id, sect$num(4)]')))
    if cfg['bad'] is not None:
        yield dict(record, swarm=dict(sw, cfg=dict(cfg, bad=None)))
    if cfg['renderer'] != ['HTML5', 'default']:
        yield dict(record, swarm=dict(sw, cfg=dict(cfg, renderer=['HTML5', 'default'])))
    env = sw['env']
    if env.get('useexec') or env['unrelated'] or env['cwd_depth']:
        yield dict(record, swarm=dict(sw, env=dict(env, useexec=False, unrelated=0, cwd_depth=0, outdir='out')))
