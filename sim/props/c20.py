"""C20 - cross-document label data survives a round trip and never blocks processing.

World: a project directory with m generated documents d0.tex .. d{m-1}.tex
whose labels are globally distinct (d<i>L<k>), every title a unique marker,
each document \\ref-ing labels of the others; two renderers per run.  Every job
is a simulated process lifetime that runs the real plasTeX.client.main path
(config -> glob + Context.restore of the other *.paux -> parse -> chdir ->
render -> Context.persist).  Faults: crash at any SimFS event with any torn
prefix of the in-flight write; idle corruption of a saved file (truncate,
bit flips, zero tail, empty, delete, foreign renderer, foreign shape, not a
pickle); document edits between runs.  Oracle: reference model of what each
.paux may hold (see DESIGN.md 5.1, invariants I1-I5 and L1).
"""
import os
import pickle
import re
import shutil

from .. import core
from .. import lifetimes

PID = 'C20'

RENDERERS = ['HTML5', 'XHTML', 'Text', 'ManPage', 'DocBook', 'rend/SiteText']
# 'rend/SiteText': a renderer given BY PATH (a package directory in the project, written by the harness): its configured
# name - the key of its block in the label file - differs from its class and module names
SITE_RENDERER = 'from plasTeX.Renderers.Text import TextRenderer\n\n\nclass Renderer(TextRenderer):\n    pass\n'

META = {
    'level': 'fault_enumeration',
    'runs': {'quick': 96, 'thorough': 4000},
    'batch': {'quick': 2, 'thorough': 4},
    'wall_cap': {'quick': 900, 'thorough': 3300},
    'rule': ('seeded op sequences RUN/RUN+crash/CORRUPT/EDIT (<=12 ops) over 2-3 documents and 2 renderers, '
             'plus dense sweeps (every SimFS event in the .paux window x tear offsets; every truncation point '
             'and single-bit flip of a saved file); a case is non-trivial iff >=1 fault FIRED (crash event '
             'reached / corrupted file subsequently read) and >=2 fault-free jobs followed it; distinct = '
             'digest of (workload, resolved fault plan)'),
    'components': {
        'real': ['plasTeX.client.main', 'plasTeX.Compile.run/parse (glob + restore)', 'plasTeX.Context.persist/restore',
                 'plasTeX.Macro.persist/restore', 'plasTeX.TeX', 'Renderers HTML5/XHTML/Text/ManPage/DocBook + templates',
                 'plasTeX.Packages.xr', 'pickle', 'jinja2', 'real directory tree on disk'],
        'stub': ['wall clock (SimClock)', 'subprocess.Popen (recorder that fails: no kpsewhich/imagers)',
                 'imagers disabled by configuration', 'process death = os._exit(77) inside the SimFS interposer',
                 'power-loss below write(): modelled as any prefix of the byte stream only']},
    'assumptions': ['reference model of .paux contents in sim/props/c20.py is trusted',
                    'bit flips / zero tails: a changed payload byte is undetectable without a checksum the format '
                    'does not have, so only "never blocks" (I1) and "heals" (I5) are asserted after them',
                    'after a crash a file holds the old content, the new content or an unloadable prefix (the '
                    'SimFS flushes what was written before the kill)'],
    'probe_names': ['rendered_reference_checked', 'target_location_checked', 'pauxdirs_from_config_file', 'pauxdirs_main_run', 'pauxdirs_same_job_name', 'pauxdirs_damaged_part', 'document_without_labels', 'common_label_saved', 'crash_between_truncate_and_write', 'crash_mid_write', 'crash_in_readback', 'crash_in_render',
                    'crash_before_paux', 'crash_after_save', 'loads_to_nondict', 'dict_without_renderer', 'edited_owner',
                    'healed_after_fault', 'cross_ref_resolved', 'other_block_preserved', 'xr_reader_used',
                    'corrupt_file_read', 'partial_restore_after_bad_entry', 'save_failed_run_continued', 'ioerr_open_r', 'ioerr_write', 'ioerr_open_w'],
    'shrink_budget': 60,
    'enum_batch': {'quick': 6, 'thorough': 12},
}
RUN_TIMEOUT = 3600
JOB = 'sim.props.c20:job'


# --------------------------------------------------------------------------
# documents

FANCY_NAMES = ['d0', 'd1.v2', 'd2 x']
SUFFIX_NAMES = ['d0', 'xd0', 'yxd0']        # each job name is a suffix of the next one's
COMMON = 'common'


def no_common(d):
    """The model tracks the labels a document can see of ANOTHER document; the common label is always shadowed by the
    reader's own one, so it is left out of the model's blocks."""
    return dict((k, v) for k, v in d.items() if k != COMMON)


def docname(i, fancy=False):
    """Job name of document i (file <name>.tex, label file <name>.paux)."""
    if fancy == 'suffix':
        return SUFFIX_NAMES[i % 3]
    return FANCY_NAMES[i % 3] if fancy else 'd%d' % i


def doc_of_label(lab):
    """'d<i>L<k>' -> i (labels are globally distinct, so a label identifies its document)"""
    m = re.match(r'd(\d+)L(\d+)', lab)
    if m is None:
        raise ValueError(lab)
    return int(m.group(1))


def xr_prefix(mode, j):
    return 'X%d-' % j if mode in ('prefix', 'both') else ''


def xr_url(mode, j):
    return 'http://ex.org/d%d/' % j if mode in ('url', 'both') else ''


def alias_label(lab, lsuf):
    base = lab[:len(lab) - len(lsuf)] if lsuf else lab
    return base + 'b' + lsuf


def doc_labels(i, st):
    out = []
    for kind, k, ver in st['items']:
        lab = 'd%dL%d%s' % (i, k, st.get('lsuf', ''))
        out.append(lab)
        if kind == 'section2':
            out.append(alias_label(lab, st.get('lsuf', '')))
    return out


def doc_source(i, st, m, use_xr, fancy_names=False):
    """st = {'items': [[kind, k, version], ...]}; labels d<i>L<k>.  use_xr: False | 'plain' | 'prefix' | 'url' | 'both'."""
    lines = ['\\documentclass{article}']
    if any(it[0] == 'longtable' for it in st['items']):
        lines.append('\\usepackage{longtable}')
    if use_xr:
        lines.append('\\usepackage{xr}')
        for j in range(m):
            if j != i:
                pre, url = xr_prefix(use_xr, j), xr_url(use_xr, j)
                lines.append('\\externaldocument%s{%s}%s' % ('[%s]' % pre if pre else '', docname(j, fancy_names), '[%s]' % url if url else ''))
    lines.append('\\begin{document}')
    for kind, k, ver in st['items']:
        lab = 'd%dL%d%s' % (i, k, st.get('lsuf', ''))
        if kind == 'section':
            deco = ['', ' caf\\\'e \\textbf{bold}', ' $x^2$ math', ' na\u00efve \u00fc', ' a \\& b'][(k + ver) % 5] if st.get('fancy') else ''
            lines.append('\\section{T%dx%dv%d%s}\\label{%s}' % (i, k, ver, deco, lab))
            lines.append('Body b%dx%d.' % (i, k))
        elif kind == 'starsection':
            lines.append('\\section*{S%dx%dv%d}\\label{%s}' % (i, k, ver, lab))
            lines.append('Body s%dx%d.' % (i, k))
        elif kind == 'section2':
            # one object carrying TWO labels (the second name = the first + 'b'): two entries with the same data
            lines.append('\\section{T%dx%dv%d}\\label{%s}\\label{%s}' % (i, k, ver, lab, alias_label(lab, st.get('lsuf', ''))))
            lines.append('Body b%dx%d.' % (i, k))
        elif kind == 'emptysection':
            lines.append('\\section{}\\label{%s}' % lab)
            lines.append('Body b%dx%d v%d.' % (i, k, ver))
        elif kind == 'figure':
            lines.append('\\begin{figure}Fig f%dx%d\\caption{C%dx%dv%d}\\label{%s}\\end{figure}' % (i, k, i, k, ver, lab))
        elif kind == 'longtable':
            lines.append('\\begin{longtable}{ll}\\caption{LT%dx%dv%d}\\label{%s}\\\\ a%dx%d & b \\\\ c & d \\\\ \\end{longtable}' % (i, k, ver, lab, i, k))
        elif kind == 'item':
            lines.append('\\begin{enumerate}\\item\\label{%s} I%dx%dv%d\\end{enumerate}' % (lab, i, k, ver))
        else:
            lines.append('Before e%dx%d.' % (i, k))
            lines.append('\\begin{equation}\\label{%s} x_{%d}=%d \\end{equation}' % (lab, k, ver))
    if st.get('common'):
        # a label name that every document of the directory defines: each document's own one is saved to its own file,
        # whatever was restored from the other documents' files before
        lines.append('\\section{Common c%d}\\label{%s}' % (i, COMMON))
        lines.append('Body c%d.' % i)
    for (j, k) in st['refs']:
        lines.append('See r%dx%dx%d \\ref{%sd%dL%d%s}.' % (i, j, k, xr_prefix(use_xr, j) if use_xr else '', j, k, st.get('lsuf', '')))
    lines.append('\\end{document}')
    return '\n'.join(lines) + '\n'


def expected_numbers(st):
    out = {}
    n = {'section': 0, 'equation': 0, 'figure': 0, 'longtable': 0}
    for kind, k, ver in st['items']:
        if kind == 'item':
            out[k] = ('1', ver, kind)           # every generated item is the first of its own list
            continue
        if kind == 'starsection':
            out[k] = (None, ver, kind)          # unnumbered: there is no number to save
            continue
        c = 'section' if kind in ('section', 'emptysection', 'section2') else kind
        n[c] += 1
        out[k] = (str(n[c]), ver, kind)
    return out


# --------------------------------------------------------------------------
# generation

def generate(seed, tier):
    R = core.Rngs(seed)
    r = R('workload')
    m = r.choice([2, 2, 3])
    rends = r.sample(RENDERERS, 2)
    if r.random() < 0.5 and 'HTML5' not in rends:
        rends[0] = 'HTML5'
    docs = []
    for i in range(m):
        items = []
        for k in range(r.choice([0, 1, 1, 2, 2, 3, 3, 4, 4])):
            items.append([r.choice(['section', 'section', 'equation', 'section', 'equation', 'figure', 'item', 'emptysection', 'starsection', 'section2', 'longtable']), k, 0])
        docs.append({'items': items, 'refs': [], 'next': len(items), 'fancy': r.random() < 0.4})
    if R('common').random() < 0.3:
        for d in docs:
            d['common'] = True
    lsuf = R('labels').choice(['', '', '', '', ':\u00e9', '.v2', ' x', '-\u00e9(1)'])      # punctuation, blanks, non-ASCII in label names
    for d in docs:
        d['lsuf'] = lsuf
    for i in range(m):
        for j in range(m):
            if j != i:
                for it in docs[j]['items']:
                    if r.random() < 0.6:
                        docs[i]['refs'].append([j, it[1]])
    rf = R('faults')
    kinds = ['crash', 'ioerr', 'truncate', 'bitflip', 'zerotail', 'empty', 'delete', 'foreign-renderer',
             'foreign-shape', 'not-a-pickle', 'bad-entry', 'edit']
    enabled = [k for k in kinds if rf.random() < 0.66] or ['crash']
    fault_free = rf.random() < 0.12          # separate fault-free population
    use_xr = r.choice(['plain', 'plain', 'prefix', 'url', 'both']) if (r.random() < 0.35 and all(x in ('HTML5', 'XHTML') for x in rends)) else False
    ro = R('ops')
    ops = []
    # warm-up: every document once under the first renderer
    for i in range(m):
        ops.append({'op': 'RUN', 'doc': i, 'r': 0})
    n = ro.randint(3, 9)
    for k in range(n):
        c = ro.random()
        if fault_free or c < 0.45:
            ops.append({'op': 'RUN', 'doc': ro.randrange(8), 'r': ro.randrange(2)})
            continue
        kind = ro.choice(enabled)
        if kind == 'crash':
            win = rf.choice(['paux', 'paux', 'paux', 'render', 'any', 'early', 'late'])
            ops.append({'op': 'RUN', 'doc': ro.randrange(8), 'r': ro.randrange(2),
                        'crash': {'window': win, 'k': rf.randrange(1000), 'tear': rf.choice([0, 1, -1, -2, rf.randrange(4096), rf.randrange(64)])}})
        elif kind == 'ioerr':
            ops.append({'op': 'RUN', 'doc': ro.randrange(8), 'r': ro.randrange(2),
                        'crash': {'ioerr': True, 'window': rf.choice(['paux', 'paux', 'restore']), 'k': rf.randrange(1000),
                                  'tear': rf.choice([0, 1, rf.randrange(512)]), 'errno': rf.choice([28, 5, 13])}})
        elif kind == 'edit':
            ops.append({'op': 'EDIT', 'doc': ro.randrange(8), 'how': ro.choice(['drop', 'add', 'retitle']), 'k': ro.randrange(8)})
        else:
            op = {'op': 'CORRUPT', 'doc': ro.randrange(8), 'kind': kind, 'pos': rf.randrange(1 << 20)}
            if kind == 'bitflip':
                op['bits'] = [[rf.randrange(1 << 20), rf.randrange(8)] for _ in range(rf.choice([1, 1, 1, 2, 3, 8]))]
            if kind == 'foreign-shape':
                op['shape'] = rf.randrange(len(FOREIGN_SHAPES))
            if kind == 'not-a-pickle':
                op['payload'] = rf.randrange(len(NOT_PICKLES))
            ops.append(op)
            if rf.random() < 0.7:       # a corruption is only a fault once somebody reads the file
                ops.append({'op': 'RUN', 'doc': ro.randrange(8), 'r': ro.randrange(2)})
    return {'property': PID, 'seed': seed,
            'swarm': {'m': m, 'renderers': rends, 'docs': docs, 'xr': use_xr, 'enabled': enabled, 'fancy_names': r.choice([False, False, False, False, True, True, 'suffix']), 'base_url': r.choice(['', '', '', 'http://base.example/docs', 'http://b.example/x/']),
                      'fault_free': fault_free},
            'ops': ops}


FOREIGN_SHAPES = [
    lambda R: [1, 2, 3],
    lambda R: 'just a string',
    lambda R: 12345,
    lambda R: None,
    lambda R: {R: [1, 2]},
    lambda R: {R: 'text'},
    lambda R: {R: {'lbl': 'notadict'}},
    lambda R: {R: {'lbl': None}},
    lambda R: {R: {7: {'ref': '1'}}},
    lambda R: {R: None},
    lambda R: {'Other': {'x': {'ref': '1', 'id': 'x'}}, R: 5},
    lambda R: {R: {'lbl': {'macroName': 'nosuchmacro', 'ref': 7}}},
    lambda R: {R: {'lbl': {'macroName': 7}}},
    lambda R: (R, {}),
    lambda R: {1: 2},
]
NOT_PICKLES = [b'hello world\n', b'<html><body>not a pickle</body></html>', b'\x80\x04', b'\x00' * 40,
               b'\xff\xfe\xfd random bytes \x01\x02', b'(dp0\nS\'HTML5\'\np1\n(dp2\n', b'.', b'N.junk after stop']


# --------------------------------------------------------------------------
# the job (runs inside a simulated process lifetime)

def job(args, fs):
    import plasTeX
    import plasTeX.Compile
    import plasTeX.client
    from plasTeX.Context import Context
    obs = {'saved': None, 'restored': None, 'refs': None, 'own': None}
    real_parse = plasTeX.Compile.parse
    real_persist = Context.persist

    def parse(filename, config):
        tex = real_parse(filename, config)
        doc = tex.ownerDocument
        ctx = doc.context
        own = set(ctx.persistentLabels.keys())
        obs['own'] = sorted(own)
        restored = {}
        for key, n in ctx.labels.items():
            if key in own:
                continue
            restored[key] = describe(n)
        obs['restored'] = restored
        refs = []
        for rn in doc.getElementsByTagName('ref'):
            target = rn.idref.get('label')
            refs.append([rn.attributes.get('label') if rn.attributes else None, describe(target),
                         getattr(target, 'parentNode', None) is not None])
        obs['refs'] = refs
        if fs is not None:
            fs.mark('render')
        return tex

    def persist(self, filename, rtype='none'):
        saved = {}
        for key, node in self.persistentLabels.items():
            saved[key] = {'ref': _s(getattr(node, 'ref', None)), 'title': _s(getattr(node, 'title', None)),
                          'url': _s(getattr(node, 'url', None)), 'id': _s(getattr(node, 'id', None))}
        obs['saved'] = saved
        obs['rtype'] = rtype
        if fs is not None:
            fs.mark('persist')
        return real_persist(self, filename, rtype)

    plasTeX.Compile.parse = parse
    plasTeX.Compile.run.__globals__['parse'] = parse
    Context.persist = persist
    argv = []
    if args.get('config_file'):
        argv += ['--config', args['config_file']]
    if args.get('paux_dirs'):
        argv += ['--paux-dirs'] + list(args['paux_dirs'])       # (list-valued: before the other options, the file name comes last)
    argv += ['--renderer', args['renderer'], '--imager', 'none', '--vector-imager', 'none']
    if args.get('base_url'):
        argv += ['--base-url', args['base_url']]
    argv.append(args['file'])
    w0 = len(fs.writes) if fs is not None else 0
    plasTeX.client.main(argv)
    # what the reader of the rendered files sees next to each reference marker ('See r<i>x<j>x<k> <number>.')
    rendered = {}
    if fs is not None:
        for rel in sorted(set(fs.writes[w0:])):
            if not rel.endswith(('.html', '.txt')):
                continue
            try:
                with lifetimes._real['open'](os.path.join(fs.root, rel), 'rb') as f:
                    text = re.sub(r'<[^>]+>', ' ', f.read().decode('utf-8', 'replace'))
            except Exception:
                continue
            for mm in re.finditer(r'\b(r\d+x\d+x\d+)\s+([^\s]+)', text):
                rendered.setdefault(mm.group(1), mm.group(2))
    obs['rendered_refs'] = rendered
    return obs


def sweep_job(args, fs):
    """Every corruption case of [lo,hi) applied to the saved file, then the three
    readers: Context.restore, xr's \\externaldocument, Context.persist (which
    reloads the old file).  None may raise; persist must leave a loadable file
    whose block for this renderer is what was just saved."""
    import hashlib
    from plasTeX import TeXDocument, Macro
    from plasTeX.TeX import TeX
    name, R = args['file'], args['renderer']
    orig = open(name, 'rb').read()
    size = len(orig)
    kind = args['kind']
    want = dict((k, tuple(v)) for k, v in args['want'].items())
    failures, probes = [], {}
    seen = set()
    ncases = 0

    def cases():
        lo, hi, step = args['lo'], args['hi'], args['step']
        if kind == 'truncate':
            for cut in range(lo, min(hi if hi is not None else size + 1, size + 1), step):
                yield ('cut', cut), orig[:cut]
        elif kind == 'bitflip':
            for bit in range(lo, min(hi if hi is not None else size * 8, size * 8), step):
                b = bytearray(orig)
                b[bit // 8] ^= 1 << (bit % 8)
                yield ('bit', bit), bytes(b)
        elif kind == 'multibit':
            for idx, bits in enumerate(args['bits'] or []):
                b = bytearray(orig)
                for bit in bits:
                    b[(bit // 8) % size] ^= 1 << (bit % 8)
                yield ('bits', bits), bytes(b)
        elif kind == 'zerotail':
            for cut in range(lo, min(hi if hi is not None else size, size), step):
                yield ('zero', cut), orig[:cut] + b'\x00' * (size - cut)

    def fail(sig, case, exc=None, **kw):
        d = {'case': list(case), 'size': size}
        if exc is not None:
            import traceback
            d['exception'] = repr(exc)
            d['traceback'] = traceback.format_exc()[-1200:]
        d.update(kw)
        failures.append({'sig': sig, 'detail': d})

    for case, data in cases():
        ncases += 1
        seen.add(hashlib.blake2b(data, digest_size=8).digest())
        with open(name, 'wb') as f:
            f.write(data)
        try:
            loaded = pickle.loads(data)
            if not isinstance(loaded, dict):
                probes['loads_to_nondict'] = 1
            elif R not in loaded:
                probes['dict_without_renderer'] = 1
        except Exception:
            loaded = None
        # reader 1: Context.restore
        doc = TeXDocument()
        try:
            doc.context.restore(name, R)
        except Exception as e:
            fail('C20|escape|Context.restore|%s' % type(e).__name__, case, e)
            continue
        got = {}
        for lab, n in doc.context.labels.items():
            if lab == COMMON:
                continue            # (not part of the model's blocks, see no_common)
            got[lab] = (_s(getattr(n, 'ref', None)), _s(getattr(n, 'title', None)), _s(getattr(n, 'urloverride', None)))
        if kind == 'truncate':
            if got and got != want:
                if set(got) <= set(want) and all(got[x] == want[x] for x in got):
                    probes['partial_restore'] = 1
                fail('C20|atworst-absent|truncate', case, None, got=got, want=want)
                continue
        elif got:
            probes['restored_after_flip'] = 1
        # reader 2: xr
        tex = TeX()
        tex.ownerDocument.config['general']['renderer'] = R
        tex.input('\\documentclass{article}\\usepackage{xr}\\externaldocument{%s}\\begin{document}\\ref{%s}\\end{document}'
                  % (name[:-5], sorted(want)[0] if want else 'x'))
        try:
            tex.parse()
        except Exception as e:
            fail('C20|escape|xr.externaldocument|%s' % type(e).__name__, case, e)
            continue
        # reader 3: Context.persist reloads the old file, then saves
        doc = TeXDocument()
        node = doc.createElement('section')
        node.ref = '7'
        node.title = 'Stub title'
        node.id = 'stubL0'
        node.urloverride = 'stub.html#stubL0'
        doc.context.persistentLabels['stubL0'] = node
        try:
            doc.context.persist(name, R)
        except Exception as e:
            fail('C20|escape|Context.persist|%s' % type(e).__name__, case, e)
            continue
        try:
            with open(name, 'rb') as f:
                d = pickle.loads(f.read())
            ok = isinstance(d, dict) and isinstance(d.get(R), dict) and d[R].get('stubL0', {}).get('ref') == '7' \
                and sorted(d[R]) == ['stubL0']
        except Exception as e:
            d, ok = repr(e), False
        if not ok:
            fail('C20|heal|unloadable', case, None, loaded=repr(d)[:300])
            continue
        if isinstance(loaded, dict) and kind == 'truncate':
            for R2 in args['others']:
                if loaded.get(R2) != d.get(R2):
                    fail('C20|per-renderer|other-block-altered', case, None, other=R2)
                    break
    with open(name, 'wb') as f:
        f.write(orig)
    return {'cases': ncases, 'size': size, 'failures': failures[:5], 'probes': probes, 'distinct': len(seen)}


def _s(v):
    if v is None:
        return None
    try:
        return ''.join(str(v))      # an exact str (DOM Text is a str subclass that drags its document along)
    except Exception as e:
        return 'UNRENDERABLE:%s' % type(e).__name__


def describe(n):
    if n is None:
        return None
    if isinstance(n, dict):
        return {'kind': 'dict', 'ref': _s(n.get('ref')), 'title': _s(n.get('title')), 'url': _s(n.get('url')),
                'id': _s(n.get('id'))}
    return {'kind': type(n).__name__, 'ref': _s(getattr(n, 'ref', None)), 'title': _s(getattr(n, 'title', None)),
            'url': _s(getattr(n, 'urloverride', None)), 'id': _s(getattr(n, 'id', None))}


# --------------------------------------------------------------------------
# simulator side: the reference model and the op interpreter

class Sim(object):
    def __init__(self, record, root):
        self.rec = record
        sw = record['swarm']
        self.m = sw['m']
        self.rends = sw['renderers']
        self.xr = sw.get('xr', False)
        self.fancy = sw.get('fancy_names') or False
        self.root = root
        self.docs = [dict(items=[list(x) for x in d['items']], refs=[list(x) for x in d['refs']], next=d['next'], fancy=d.get('fancy', False), common=bool(d.get('common')), lsuf=d.get('lsuf', ''))
                     for d in sw['docs']]
        # model: per file -> {'state': 'clean'|'dirty'|'absent', 'cands': [blocks...], 'fuzzy': bool}
        # blocks = {R: {label: (ref, title, url)}}
        self.files = dict((self.jn(i) + '.paux', {'state': 'absent', 'cands': [{}], 'fuzzy': False}) for i in range(self.m))
        self.info = {}
        self.fired = {}
        self.configured = {}
        self.viol = []
        self.log = []
        self.clock = lifetimes.T0 + 3600
        self.jobs_since_fault = None
        self.fault_then_jobs = 0
        self.plan_digest = []
        self.pending_corrupt = {}      # file -> kind, until somebody reads it
        self._io = None
        os.makedirs(self.root)
        os.makedirs(os.path.join(self.root, 'rend', 'SiteText'))
        with open(os.path.join(self.root, 'rend', 'SiteText', '__init__.py'), 'w') as f:
            f.write(SITE_RENDERER)
        for i in range(self.m):
            self.write_doc(i)

    def jn(self, i):
        return docname(i, self.fancy)

    def pauxof(self, lab):
        return self.jn(doc_of_label(lab)) + '.paux'

    # -- disk
    def path(self, name):
        return os.path.join(self.root, name)

    def write_doc(self, i):
        with open(self.path(self.jn(i) + '.tex'), 'w') as f:
            f.write(doc_source(i, self.docs[i], self.m, self.xr, self.fancy))

    def violation(self, sig, detail):
        self.viol.append({'sig': sig, 'detail': detail})

    def count(self, d, k):
        d[k] = d.get(k, 0) + 1

    # -- one lifetime
    def lifetime(self, i, R, crash=None):
        setup = {'root': self.root, 'cwd': self.root, 'clock': self.clock, 'crash': crash,
                 'env': {'environ': {'HOME': self.root, 'TEXINPUTS': self.root}}}
        return lifetimes.run_lifetime(JOB, {'file': self.jn(i) + '.tex', 'renderer': R, 'base_url': self.rec['swarm'].get('base_url', '')}, setup, timeout=600)

    # -- ops
    def run(self, ops):
        for k, op in enumerate(ops):
            o = op.get('op')
            if o == 'RUN':
                self.op_run(k, op)
            elif o == 'CORRUPT':
                self.op_corrupt(k, op)
            elif o == 'EDIT':
                self.op_edit(k, op)
            elif o == 'IDLE_SWEEP':
                self.op_idle_sweep(k, op)
            if self.viol:
                return
        if not self.rec['swarm'].get('no_recovery'):
            self.recovery()

    def op_edit(self, k, op):
        i = op['doc'] % self.m
        d = self.docs[i]
        how = op['how']
        if how == 'drop' and d['items']:          # (down to a document without any label: its saved block becomes empty)
            it = d['items'].pop(op['k'] % len(d['items']))
            for j in range(self.m):
                self.docs[j]['refs'] = [x for x in self.docs[j]['refs'] if not (x[0] == i and x[1] == it[1])]
                self.write_doc(j)
        elif how == 'add':
            d['items'].append([['section', 'equation', 'figure', 'item'][op['k'] % 4], d['next'], 0])
            for j in range(self.m):
                if j != i:
                    self.docs[j]['refs'].append([i, d['next']])
                    self.write_doc(j)
            d['next'] += 1
        elif d['items']:
            it = d['items'][op['k'] % len(d['items'])]
            it[2] += 1
        if not d['items']:
            self.info['document_without_labels'] = 1
        self.write_doc(i)
        self.log.append(['EDIT', i, how])
        self.info['edited_owner'] = 1
        self.clock += 86400

    def op_corrupt(self, k, op):
        i = op['doc'] % self.m
        name = self.jn(i) + '.paux'
        p = self.path(name)
        kind = op['kind']
        self.count(self.configured, kind)
        fm = self.files[name]
        exists = os.path.exists(p)
        data = open(p, 'rb').read() if exists else b''
        R = self.rends[0]
        new = None
        if kind == 'delete':
            if exists:
                os.remove(p)
            fm.update(state='absent', cands=[{}], fuzzy=False)
            self.log.append(['CORRUPT', name, kind])
            self.pending_corrupt[name] = kind
            return
        if kind == 'empty':
            new = b''
        elif kind == 'truncate':
            if not data:
                return
            new = data[:op['pos'] % len(data)]
        elif kind == 'zerotail':
            if not data:
                return
            cut = op['pos'] % len(data)
            new = data[:cut] + b'\x00' * (len(data) - cut)
        elif kind == 'bitflip':
            if not data:
                return
            b = bytearray(data)
            for pos, bit in op.get('bits', [[0, 0]]):
                b[pos % len(b)] ^= (1 << (bit % 8))
            new = bytes(b)
        elif kind == 'bad-entry':
            # a damaged file that still unpickles: ONE unusable entry slipped into otherwise good blocks
            try:
                d = pickle.loads(data)
            except Exception:
                return
            if not isinstance(d, dict):
                return
            junk = [('zz0', 'notadict'), (7, {'ref': '1'}), ('zz2', None), ('zz3', {'macroName': 'nosuchmacro%d' % k, 'ref': 5}),
                    ('zz4', {'macroName': 7})][op['pos'] % 5]
            for R2 in list(d):
                if isinstance(d[R2], dict):
                    items = list(d[R2].items())
                    at = (op['pos'] // 5) % (len(items) + 1)
                    d[R2] = dict(items[:at] + [junk] + items[at:])
            new = pickle.dumps(d)
        elif kind == 'foreign-renderer':
            new = pickle.dumps({'SomeOtherRenderer': {'zz': {'macroName': 'section', 'ref': '9', 'id': 'zz',
                                                             'url': 'zz.html', 'title': 'ZZ'}}})
        elif kind == 'foreign-shape':
            new = pickle.dumps(FOREIGN_SHAPES[op.get('shape', 0) % len(FOREIGN_SHAPES)](self.rends[op['pos'] % 2]))
        elif kind == 'not-a-pickle':
            new = NOT_PICKLES[op.get('payload', 0) % len(NOT_PICKLES)]
        with open(p, 'wb') as f:
            f.write(new)
        if kind == 'bad-entry':
            # the good entries are intact: readers may get any SUBSET of them (a reader may give up at the bad one),
            # each with unaltered values; the owner's next save must produce a complete file again
            fm.update(state='dirty', subset=True)
        elif kind in ('bitflip', 'zerotail'):
            if new != data:
                fm.update(state='dirty', fuzzy=True)
        elif kind == 'truncate' and new == data:
            pass
        else:
            fm.update(state='dirty', cands=[{}], fuzzy=False)
            if kind == 'foreign-shape':
                fm['fuzzy'] = True      # a foreign dict may carry arbitrary label entries of its own
        self.pending_corrupt[name] = kind
        self.log.append(['CORRUPT', name, kind, len(data), len(new)])

    def op_run(self, k, op):
        i = op['doc'] % self.m
        R = self.rends[op['r'] % 2]
        name = self.jn(i) + '.paux'
        crash = None
        self.clock += 60
        if op.get('crash'):
            crash = self.resolve_crash(i, R, op['crash'])
        before = self.snapshot_blocks()
        st, out = self.lifetime(i, R, crash)
        # corrupted files read by this job: the fault fired
        if st == 'ok':
            read = set(out['fs']['reads'])
            for fname, kind in list(self.pending_corrupt.items()):
                if fname in read or (kind == 'delete' and fname != name):
                    self.count(self.fired, kind)
                    self.info['corrupt_file_read'] = 1
                    if kind == 'foreign-shape':
                        self.info['loads_to_nondict'] = 1
                    if kind == 'foreign-renderer':
                        self.info['dict_without_renderer'] = 1
                    del self.pending_corrupt[fname]
                    self.note_fault()
        self._io = None
        if crash is not None and crash.get('ioerr'):
            self.count(self.configured, 'ioerr')
            if st == 'ok' and 'ioerr-fired' in out['fs']['marks']:
                self.count(self.fired, 'ioerr')
                self._io = {'kind': self._ckind, 'path': self._cpath, 'win': self._cwin, 'torn': getattr(self, '_ctorn', True)}
                self.plan_digest.append(['ioerr', i, R, crash['event'], crash.get('tear'), self._ckind, crash.get('errno')])
                self.info['ioerr_' + self._ckind.replace('-', '_')] = 1
                self.note_fault()
        elif crash is not None:
            self.count(self.configured, 'crash')
            if st == 'crashed':
                self.count(self.fired, 'crash')
                self.plan_digest.append(['crash', i, R, crash['event'], crash.get('tear'), self._ckind])
                self.after_crash(i, R, name)
                self.note_fault()
                self.log.append(['RUN', i, R, 'crashed', crash['event'], crash.get('tear')])
                return
            # planned event not reached -> not fired, job completed normally
        if st != 'ok':
            raise core.HarnessError('unplanned crash')
        self.after_job(k, i, R, name, out, before)

    def note_fault(self):
        self.jobs_since_fault = 0

    # -- dense idle-corruption sweep of one saved file through the three readers (API level, one lifetime)
    def op_idle_sweep(self, k, op):
        i = op['doc'] % self.m
        name = self.jn(i) + '.paux'
        fm = self.files[name]
        if fm['state'] != 'clean' or not os.path.exists(self.path(name)):
            return
        R = self.rends[op.get('r', 0) % 2]
        blocks = fm['cands'][0]
        args = {'file': name, 'renderer': R, 'kind': op['kind'], 'lo': op.get('lo', 0), 'hi': op.get('hi'),
                'step': op.get('step', 1), 'want': dict((lab, list(v)) for lab, v in blocks.get(R, {}).items()),
                'others': sorted(x for x in blocks if x != R), 'reader_doc': self.jn((i + 1) % self.m),
                'bits': op.get('bits')}
        setup = {'root': self.root, 'cwd': self.root, 'clock': self.clock,
                 'env': {'environ': {'HOME': self.root, 'TEXINPUTS': self.root}}}
        st, out = lifetimes.run_lifetime('sim.props.c20:sweep_job', args, setup, timeout=1500)
        if st != 'ok' or not out.get('ok'):
            raise core.HarnessError('idle sweep lifetime failed: %r' % (out and out.get('traceback'),))
        r = out['result']
        self.sweep_cases = getattr(self, 'sweep_cases', 0) + r['cases']
        self.fired[op['kind']] = self.fired.get(op['kind'], 0) + r['cases']
        self.configured[op['kind']] = self.configured.get(op['kind'], 0) + r['cases']
        for key in ('loads_to_nondict', 'dict_without_renderer', 'partial_restore', 'restored_after_flip'):
            if r['probes'].get(key):
                self.info[key] = 1
        self.plan_digest.append(['sweep', op['kind'], r['size'], op.get('lo', 0), op.get('hi'), op.get('step', 1)])
        self.log.append(['IDLE_SWEEP', name, op['kind'], r['cases'], r['size'], len(r['failures'])])
        self.sweep_distinct = getattr(self, 'sweep_distinct', 0) + r['distinct']
        for f in r['failures'][:1]:
            self.violation(f['sig'], dict(f['detail'], op=k, file=name, renderer=R, kind=op['kind']))

    # -- crash planning: resolve the symbolic plan against a fault-free dry run on a snapshot of the disk
    def resolve_crash(self, i, R, plan):
        snap = self.root + '.snap'
        if os.path.exists(snap):
            shutil.rmtree(snap)
        shutil.copytree(self.root, snap, symlinks=True)
        try:
            st, out = self.lifetime(i, R, None)
        finally:
            shutil.rmtree(self.root)
            os.rename(snap, self.root)
        if st != 'ok' or not out.get('ok'):
            return None         # the job fails even without a crash: judged by the fault-free path
        log = out['fs']['log']
        name = self.jn(i) + '.paux'
        marks = out['fs']['marks']
        paux = [e for e in log if e[2] and name in str(e[2]) and e[0] >= marks.get('persist', 0)]
        render = [e for e in log if marks.get('render', 0) <= e[0] < marks.get('persist', len(log))]
        early = [e for e in log if e[0] < marks.get('render', 0)]
        restore = [e for e in early if e[1] == 'open-r' and str(e[2]).endswith('.paux')]
        late = [e for e in log if paux and e[0] > max(x[0] for x in paux)]
        win = {'paux': paux, 'render': render, 'any': log, 'early': early, 'restore': restore, 'late': late}.get(plan['window'])
        if plan.get('ioerr'):
            # injected I/O errors are aimed at the label files only (the statement is about those; an unwritable
            # OUTPUT file legitimately fails the run): no such event in this job -> no fault
            win = [e for e in (win or []) if str(e[2]).endswith('.paux') or '.paux' in str(e[2])]
            if not win:
                return None
        win = win or log
        ev = win[plan['k'] % len(win)]
        tear = plan.get('tear', 0)
        self._ckind = ev[1]
        self._cpath = ev[2]
        last_paux = max([e[0] for e in paux] or [len(log)])
        self._cwin = 'paux' if ev in paux else ('render' if ev in render else ('late' if ev[0] > last_paux else 'early'))
        if ev[1] == 'write':
            ln = ev[3] or 0
            if tear < 0:
                tear = max(0, ln + 1 + tear)        # -1 -> len, -2 -> len-1
            tear = min(tear, ln)
            self._ctorn = tear < ln
        self._dry = out
        if plan.get('ioerr'):
            return {'event': ev[0], 'tear': max(0, tear), 'ioerr': True, 'errno': plan.get('errno', 28)}
        return {'event': ev[0], 'tear': tear}

    def merged(self, name, R, out):
        """What the file may hold once a save of renderer R's block was written completely: whichever content the
        old file really had (every candidate), with block R replaced by what this job saves.  An unloadable old
        file (candidate {}) gives {R: saved}."""
        saved = out['result']['saved'] or {}
        blockR = no_common(dict((k, (v['ref'], v['title'], v['url'])) for k, v in saved.items()))
        res = []
        for c in self.files[name]['cands']:
            m = dict(c, **{R: blockR})
            if m not in res:
                res.append(m)
        return res

    def after_crash(self, i, R, name):
        fm = self.files[name]
        kind, win = self._ckind, self._cwin
        if win == 'early':
            self.info['crash_before_paux'] = 1
        elif win == 'render':
            self.info['crash_in_render'] = 1
        if win == 'late':
            # killed after the save had completed (e.g. at the final chdir): the file holds the new content
            self.info['crash_after_save'] = 1
            fm['cands'] = self.merged(name, R, self._dry)
            if fm['state'] != 'clean':
                fm['state'] = 'dirty'
            return
        if win != 'paux':
            return                                  # the saved file was not touched
        if kind == 'open-r':
            self.info['crash_in_readback'] = 1
            return
        if kind == 'remove' and self._cpath == name:
            return
        if kind == 'open-w':
            self.info['crash_between_truncate_and_write'] = 1
            fm.update(state='dirty', cands=[{}])
        elif kind == 'write':
            if self._ctorn:
                self.info['crash_mid_write'] = 1
                fm.update(state='dirty', cands=[{}])
            else:
                fm.update(state='dirty', cands=self.merged(name, R, self._dry) + [{}])
        elif kind == 'close':
            fm.update(state='dirty', cands=self.merged(name, R, self._dry) + [{}])
        else:
            # an event kind the shipped code does not produce here (rename, mkdir, copy ...): whatever protocol
            # the save uses, after a crash the file may hold the old content, the new content or nothing loadable
            old = [dict(c) for c in fm['cands']]
            fm.update(state='dirty', cands=old + self.merged(name, R, self._dry) + [{}])

    def snapshot_blocks(self):
        snap = {}
        for name in self.files:
            p = self.path(name)
            try:
                with open(p, 'rb') as f:
                    snap[name] = pickle.loads(f.read())
            except Exception:
                snap[name] = None
        return snap

    # -- judging a completed, fault-free job
    def after_job(self, k, i, R, name, out, before):
        if self.jobs_since_fault is not None:
            self.jobs_since_fault += 1
            if self.jobs_since_fault == 2:
                self.fault_then_jobs += 1
        self.log.append(['RUN', i, R, 'ok' if out.get('ok') else out.get('exception'),
                         core.hexdigest([out.get('fs', {}).get('log'), out.get('result')])])
        # I1 never blocks
        if not out.get('ok'):
            tb = out.get('traceback', '')
            site = _site(tb)
            self.violation('C20|escape|%s|%s' % (site, out.get('exception')),
                           {'op': k, 'doc': i, 'renderer': R, 'exception': out.get('exception'),
                            'message': out.get('message'), 'traceback': tb[-1200:],
                            'files': dict((n, f['state']) for n, f in self.files.items()),
                            'log': self.log[-8:]})
            return
        res = out['result']
        saved = res['saved'] or {}
        exp = expected_numbers(self.docs[i])
        # the generator's own bookkeeping vs what the live nodes say (guards the observation itself)
        for lab, v in saved.items():
            if lab == COMMON:
                if v['title'] is None or ('c%d' % i) not in v['title']:
                    self.violation('C20|save|common-label-of-another-document', {'label': lab, 'saved': v, 'doc': i})
                    return
                self.info['common_label_saved'] = 1
                continue
            kk = int(re.match(r'd(\d+)L(\d+)', lab).group(2))
            if kk in exp:
                num, ver, kind = exp[kk]
                if num is None:
                    continue
                if v['ref'] is None or num not in v['ref']:
                    self.violation('C20|save|number', {'label': lab, 'saved': v, 'expected': num})
                    return
        # the saved target location names a file this document's rendering really has (a location without a file
        # part would point into whatever document READS the label)
        for lab, v in saved.items():
            u = v.get('url')
            if u is None:
                continue
            base = self.rec['swarm'].get('base_url', '')
            if base and u.startswith(base):
                u = u[len(base):].lstrip('/')
            fpart = u.split('#')[0]
            if not fpart or not (os.path.exists(os.path.join(self.root, self.jn(i), fpart)) or os.path.exists(os.path.join(self.root, fpart))):
                self.violation('C20|save|target-location', {'label': lab, 'url': u, 'doc': i, 'renderer': R})
                return
            self.info['target_location_checked'] = 1
        if sorted(saved) != sorted(doc_labels(i, self.docs[i]) + ([COMMON] if self.docs[i].get('common') else [])):
            self.violation('C20|save|labelset', {'saved': sorted(saved), 'doc': self.docs[i]['items']})
            return
        # I2 / I3 / I4: what this job restored from the other documents' files
        restored = res['restored'] or {}
        byfile = {}
        for lab, d in restored.items():
            if self.xr and isinstance(lab, str) and lab.startswith('X') and ('-d' in lab or lab.endswith('-' + COMMON)):
                continue        # labels[prefix + label] entries made by \externaldocument[prefix]: judged by the xr check
            if not isinstance(lab, str) or not lab.startswith('d') or 'L' not in lab:
                byfile.setdefault('?', {})[lab] = d
                continue
            try:
                byfile.setdefault(self.pauxof(lab), {})[lab] = d
            except ValueError:
                byfile.setdefault('?', {})[lab] = d
        for fname, fm in self.files.items():
            if fname == name:
                got = byfile.get(fname, {})
                if got and not self.xr:
                    self.violation('C20|restore|own-file-read', {'labels': sorted(got)})
                    return
                continue
            got = dict((lab, (d['ref'], d['title'], d['url'])) for lab, d in byfile.get(fname, {}).items())
            if self._io and self._io['path'] == fname and not got:
                continue        # the read of exactly this file failed (injected EIO): its labels may be absent
            if self.xr:
                continue        # xr replaces the restored nodes by dicts from all blocks; judged below
            if fm['fuzzy']:
                continue        # bit flips: only I1/I5 (no checksum in the format)
            cands = [c.get(R, {}) for c in fm['cands']]
            if fm.get('subset'):
                got = dict((lab, v) for lab, v in got.items() if str(lab).startswith('d'))
                if any(all(c.get(lab) == v for lab, v in got.items()) for c in cands):
                    if got:
                        self.info['partial_restore_after_bad_entry'] = 1
                    continue
            if got not in cands:
                cls = 'roundtrip' if fm['state'] == 'clean' else 'atworst-absent'
                self.violation('C20|%s|%s' % (cls, _diffkind(got, cands)),
                               {'op': k, 'reader': 'd%d' % i, 'renderer': R, 'file': fname, 'state': fm['state'],
                                'got': got, 'expected_one_of': cands, 'log': self.log[-8:]})
                return
            if got and fm['state'] == 'clean':
                self.info['roundtrip_nonempty'] = 1
        if byfile.get('?'):
            if not any(f['fuzzy'] or f.get('subset') for f in self.files.values()):
                self.violation('C20|restore|alien-label', {'labels': sorted(repr(x) for x in byfile['?'])})
                return
        # references to other documents' labels resolve to the restored data
        for labattr, target, intree in res['refs'] or []:
            if target is None:
                continue
            # (the entry is looked up by the label the reference NAMES: an object with two labels carries the id of the
            #  second one in both entries; after a bit flip the two entries may differ, and nothing is asserted then)
            lab = _s(labattr) if _s(labattr) in restored else target.get('id')
            try:
                if self.files[self.pauxof(lab)]['fuzzy']:
                    continue
            except (ValueError, KeyError, TypeError):
                pass
            if lab in restored and not self.xr:
                self.info['cross_ref_resolved'] = 1
                d = restored[lab]
                if (target['ref'], target['url']) != (d['ref'], d['url']):
                    self.violation('C20|ref|wrong-target', {'label': lab, 'target': target, 'restored': d})
                    return
        # ... and the RENDERED text next to the reference shows the restored number (HTML and text renderers)
        if not self.xr and R in ('HTML5', 'XHTML', 'Text', 'rend/SiteText'):
            shown = res.get('rendered_refs') or {}
            lsuf = self.docs[i].get('lsuf', '')
            for (j, kk) in self.docs[i]['refs']:
                lab = 'd%dL%d%s' % (j, kk, lsuf)
                d = restored.get(lab)
                fm2 = self.files.get(self.jn(j) + '.paux')
                if d is None or d.get('ref') in (None, '') or fm2 is None or fm2['fuzzy'] or fm2.get('subset') or fm2['state'] != 'clean':
                    continue
                tok = shown.get('r%dx%dx%d' % (i, j, kk))
                if tok is None:
                    continue
                self.info['rendered_reference_checked'] = 1
                if tok.rstrip('.') != d['ref']:
                    self.violation('C20|ref|rendered-number', {'label': lab, 'rendered': tok, 'restored': d, 'renderer': R, 'doc': i})
                    return
        if self.xr:
            self.info['xr_reader_used'] = 1
            self.info['xr_mode_%s' % self.xr] = 1
            # the xr reader: \ref to a label of d<j> resolves to the data saved for it under THIS renderer
            for labattr, target, intree in res['refs'] or []:
                if target is None or not isinstance(target.get('id'), str):
                    continue
                lab = target['id']
                if not lab.startswith('d') or 'L' not in lab:
                    continue
                try:
                    fname = self.pauxof(lab)
                except ValueError:
                    continue
                fm2 = self.files.get(fname)
                if fm2 is None or fname == name or fm2['fuzzy']:
                    continue
                gotv = (target['ref'], target['title'], target['url']) if target['kind'] == 'dict' else None
                if self._io and self._io['path'] == fname and (gotv is None or target['kind'] != 'dict'):
                    continue        # the read of exactly this file failed (injected I/O error): its labels may be absent
                base = xr_url(self.xr, doc_of_label(lab))
                cands = [c.get(R, {}).get(lab) for c in fm2['cands']]
                cands = [(v[0], v[1], (base + v[2]) if (base and v[2] is not None) else v[2]) if v is not None else None for v in cands]
                if gotv not in cands:
                    others = [c.get(R2, {}).get(lab) for c in fm2['cands'] for R2 in c if R2 != R]
                    cls = 'other-renderer-block' if gotv in others and gotv is not None else 'wrong-data'
                    self.violation('C20|xr|%s' % cls,
                                   {'op': k, 'reader': 'd%d' % i, 'renderer': R, 'file': fname, 'label': lab,
                                    'got': gotv, 'expected_one_of': cands, 'state': fm2['state'], 'log': self.log[-8:]})
                    return
                if gotv is not None:
                    self.info['xr_resolved'] = 1
        if self._io and self._io['win'] == 'paux' and self._io['kind'] in ('open-w', 'write', 'close', 'open-x', 'rename', 'remove'):
            # the save itself failed with an I/O error (disk full ...): the run went on (I1 held); the file holds the
            # old content, a short write or nothing, exactly like after a crash - it must heal at the next save
            fm = self.files[name]
            kind = self._io['kind']
            if kind in ('open-w', 'open-x'):
                pass                                 # the open itself failed: the file was not touched
            elif kind == 'write' and self._io.get('torn', True):
                fm.update(state='dirty', cands=[{}])  # truncated by the open, then a short write
            else:
                fm.update(state='dirty', cands=self.merged(name, R, out) + [{}] + [dict(c) for c in fm['cands']])
            if fm['state'] == 'clean' and kind in ('open-w', 'open-x'):
                pass
            self.info['save_failed_run_continued'] = 1
            return
        if self._io and self._io['win'] == 'paux' and self._io['kind'] == 'open-r':
            # the read-back of the old file failed: the tolerant reload starts afresh, other renderers' blocks may be gone
            self.files[name]['state'] = 'dirty'
        # I5 heals: the file is complete and loadable again, block R equals what was saved
        p = self.path(name)
        try:
            with open(p, 'rb') as f:
                d = pickle.loads(f.read())
            ok = isinstance(d, dict) and isinstance(d.get(R), dict)
        except Exception as e:
            d, ok = repr(e), False
        if not ok:
            self.violation('C20|heal|unloadable', {'op': k, 'file': name, 'loaded': repr(d)[:300],
                                                   'state_before': self.files[name]['state'], 'log': self.log[-8:]})
            return
        blockR = {}
        for lab, v in d[R].items():
            if isinstance(v, dict):
                blockR[lab] = (_s(v.get('ref')), _s(v.get('title')), _s(v.get('url')))
        want = dict((lab, (v['ref'], v['title'], v['url'])) for lab, v in saved.items())
        fm = self.files[name]
        if blockR != want:
            self.violation('C20|heal|block-differs', {'op': k, 'file': name, 'renderer': R, 'saved_live': want,
                                                      'in_file': blockR})
            return
        if fm['state'] != 'clean':
            self.info['healed_after_fault'] = 1
        # I3: a clean block of another renderer is kept unchanged by this save
        prev = before.get(name)
        if fm['state'] == 'clean' and isinstance(prev, dict):
            for R2, blk in prev.items():
                if R2 != R:
                    if d.get(R2) != blk:
                        self.violation('C20|per-renderer|other-block-altered',
                                       {'op': k, 'file': name, 'saving': R, 'other': R2})
                        return
                    self.info['other_block_preserved'] = 1
        # model update
        newblocks = {}
        if fm['state'] == 'clean':
            newblocks = dict(fm['cands'][0])
        elif isinstance(prev, dict):
            # dirty but loadable: whatever other blocks survived are carried over by persist; adopt them from disk
            for R2, blk in d.items():
                if R2 != R and isinstance(blk, dict):
                    nb = {}
                    for lab, v in blk.items():
                        if lab == COMMON:
                            continue
                        if not _junk_entry(lab, v):
                            nb[lab] = (_s(v.get('ref')), _s(v.get('title')), _s(v.get('url')))
                    newblocks[R2] = nb
        newblocks[R] = no_common(want)
        fuzzy = fm['fuzzy'] and any(R2 != R for R2 in d)
        # junk entries of OTHER renderers' blocks stay on disk until those renderers save again: a reader under such a
        # renderer may give up at the junk entry and get only a subset of that block
        self.files[name] = {'state': 'clean', 'cands': [newblocks], 'fuzzy': False, 'subset': has_junk(d)}
        if fuzzy:
            # other renderers' blocks of a bit-flipped file remain unverifiable until they are re-saved
            self.files[name]['fuzzy_blocks'] = [R2 for R2 in d if R2 != R]
            self.files[name]['fuzzy'] = True
        self.last_out = out

    # -- L1 bounded recovery: once faults stop, two fault-free rounds make I2 hold for every pair
    def recovery(self):
        if self.viol:
            return
        self.clock += 3600
        for rnd in range(2):
            for R in self.rends:
                for i in range(self.m):
                    self.op_run(1000 + rnd, {'doc': i, 'r': self.rends.index(R)})
                    if self.viol:
                        return
        for name, fm in self.files.items():
            if fm['state'] != 'clean':
                self.violation('C20|recovery|not-clean', {'file': name})
                return
            for R in self.rends:
                if R not in fm['cands'][0]:
                    self.violation('C20|recovery|missing-block', {'file': name, 'renderer': R})
                    return


def _junk_entry(lab, v):
    return (not isinstance(lab, str)) or (lab != COMMON and not lab.startswith('d')) or (not isinstance(v, dict)) \
        or (not isinstance(v.get('macroName', 'Macro'), str)) or str(v.get('macroName', '')).startswith('nosuch')


def has_junk(d):
    if not isinstance(d, dict):
        return True
    for blk in d.values():
        if not isinstance(blk, dict):
            return True
        for lab, v in blk.items():
            if _junk_entry(lab, v):
                return True
    return False


def _diffkind(got, cands):
    c = cands[0]
    if set(got) - set().union(*[set(x) for x in cands]):
        return 'extra-label'
    if set(c) - set(got):
        return 'missing-label'
    for lab in got:
        if lab in c and got[lab] != c[lab]:
            for idx, what in enumerate(('number', 'title', 'url')):
                if got[lab][idx] != c[lab][idx]:
                    return what
    return 'other'


def _site(tb):
    """Innermost plasTeX frame of a traceback -> 'File.py:function'."""
    site = '?'
    for line in tb.splitlines():
        line = line.strip()
        if line.startswith('File "') and '/plasTeX/' in line:
            try:
                fn = line.split('"')[1].split('/plasTeX/')[1]
                func = line.rsplit(' in ', 1)[1]
                site = '%s:%s' % (fn, func)
            except Exception:
                pass
    return site


def prepare():
    lifetimes.pristine_parent()


def enumerate_cases(base_seed, tier):
    """Deterministic dense part of the fault space (DESIGN 5.1): per sampled
    workload (a) every SimFS event of the .paux window x tear offsets, (b) every
    truncation point and (c) single-bit flips of one saved file through the
    three readers.  Each case is an ordinary record, so a failure is shrunk and
    replayed like any other."""
    import random
    out = []
    nwl = 2 if tier == 'quick' else 24
    for w in range(nwl):
        seed = core.h64('C20-enum', base_seed, w)
        base = generate(seed, tier)
        sw = dict(base['swarm'], no_recovery=True)
        r = random.Random(seed)
        warm = []
        for rr in (0, 1):
            for i in range(sw['m']):
                warm.append({'op': 'RUN', 'doc': i, 'r': rr})
        # (b) (c): idle sweeps, chunked so that 16 workers share them
        nchunk = 4 if tier == 'quick' else 16
        for kind, total, step in (('truncate', 1400, 1), ('bitflip', 1400 * 8, 7 if tier == 'quick' else 1),
                                  ('zerotail', 1400, 5 if tier == 'quick' else 1)):
            per = (total + nchunk - 1) // nchunk
            for c in range(nchunk):
                out.append({'property': PID, 'seed': core.h64(seed, kind, c), 'swarm': sw,
                            'ops': warm + [{'op': 'IDLE_SWEEP', 'doc': 0, 'r': w % 2, 'kind': kind,
                                            'lo': c * per, 'hi': (c + 1) * per, 'step': step}]})
        bits = [[r.randrange(1400 * 8) for _ in range(r.choice([2, 3, 4, 8]))] for _ in range(64 if tier == 'quick' else 2000)]
        out.append({'property': PID, 'seed': core.h64(seed, 'multibit'), 'swarm': sw,
                    'ops': warm + [{'op': 'IDLE_SWEEP', 'doc': 0, 'r': w % 2, 'kind': 'multibit', 'bits': bits}]})
        # (a): crash sweep: every event of the .paux window x tear offsets, then reader / healer / reader
        tears = [0, 1, 2, -3, -2, -1] if tier == 'quick' else list(range(0, 700)) + [-1]
        for rr in (0, 1) if tier == 'thorough' else (w % 2,):
            for kk in range(5):                 # open-r, open-w, write, close (+1 wraps: harmless duplicate)
                for t in (tears if kk == 2 else [0]):
                    out.append({'property': PID, 'seed': core.h64(seed, 'crash', rr, kk, t), 'swarm': sw,
                                'ops': warm + [{'op': 'RUN', 'doc': 0, 'r': rr, 'crash': {'window': 'paux', 'k': kk, 'tear': t}},
                                               {'op': 'RUN', 'doc': 1, 'r': rr}, {'op': 'RUN', 'doc': 0, 'r': rr},
                                               {'op': 'RUN', 'doc': 1, 'r': rr}, {'op': 'RUN', 'doc': 1, 'r': 1 - rr}]})
    out += pauxdirs_cases(base_seed, tier)
    # xr in each of its option forms x every kind of labelled object (incl. one object with two labels), fault-free
    kinds = ['section2', 'section', 'equation', 'figure', 'item', 'emptysection', 'starsection', 'longtable']
    for mode in ('plain', 'prefix', 'url', 'both'):
        for lsuf in (('', ':\u00e9') if tier == 'thorough' else ('',)):
            docs = [{'items': [['section', 0, 0]], 'refs': [[1, k] for k in range(len(kinds))], 'next': 1, 'fancy': False, 'lsuf': lsuf},
                    {'items': [[kd, k, 0] for k, kd in enumerate(kinds)], 'refs': [[0, 0]], 'next': len(kinds), 'fancy': True, 'lsuf': lsuf}]
            sw = {'m': 2, 'renderers': ['HTML5', 'XHTML'], 'docs': docs, 'xr': mode, 'enabled': [], 'fancy_names': False,
                  'base_url': '', 'fault_free': True}
            out.append({'property': PID, 'seed': core.h64('C20-xr', mode, lsuf), 'swarm': sw,
                        'ops': [{'op': 'RUN', 'doc': 1, 'r': 0}, {'op': 'RUN', 'doc': 0, 'r': 0}, {'op': 'RUN', 'doc': 1, 'r': 1},
                                {'op': 'RUN', 'doc': 0, 'r': 1}, {'op': 'RUN', 'doc': 0, 'r': 0}, {'op': 'RUN', 'doc': 1, 'r': 0}]})
    return out


# --------------------------------------------------------------------------
# label files in OTHER directories (--paux-dirs): a main document in the top directory, two parts in partA/ and
# partB/ (their job names may be equal: two 'index.tex' are common), optionally with one of the part files damaged

PD_NAMES = [('a', 'b', 'main'), ('index', 'index', 'main'), ('part', 'part', 'book'), ('x', 'xx', 'main'), ('index', 'b', 'index'), ('index', 'index', 'index')]
PD_DAMAGE = [None, ('truncate', 0), ('truncate', 1), ('empty', 0), ('notpickle', 1), ('delete', 0), ('foreign', 1)]


def pauxdirs_cases(base_seed, tier):
    out = []
    for ni, names in enumerate(PD_NAMES):
        for di, dmg in enumerate(PD_DAMAGE if tier == 'thorough' or ni == 1 else PD_DAMAGE[:2]):
            for R in (('HTML5', 'XHTML') if tier == 'thorough' else ('HTML5',)):
                out.append({'property': PID, 'seed': core.h64('C20-pauxdirs', ni, di, R),
                            'swarm': {'pauxdirs': True, 'renderer': R, 'names': list(names)},
                            'ops': [{'op': 'PD', 'damage': list(dmg) if dmg else None}]})
    # the same with a directory name that contains a blank, given on the command line and in a configuration file (quoted)
    for via in ('cli', 'config'):
        for di, dmg in enumerate(PD_DAMAGE[:2] if tier == 'quick' else PD_DAMAGE):
            out.append({'property': PID, 'seed': core.h64('C20-pauxdirs-blank', via, di),
                        'swarm': {'pauxdirs': True, 'renderer': 'HTML5', 'names': ['a', 'b', 'main'], 'dirs': ['part A', 'partB'], 'via': via},
                        'ops': [{'op': 'PD', 'damage': list(dmg) if dmg else None}]})
    return out


def _pd_source(tag, nlabels, refs):
    lines = ['\\documentclass{article}', '\\begin{document}']
    for k in range(nlabels):
        lines.append('\\section{T%s%d}\\label{%sL%d}' % (tag, k, tag, k))
        lines.append('Body %s%d.' % (tag, k))
    for lab in refs:
        lines.append('See \\ref{%s}.' % lab)
    lines.append('\\end{document}')
    return '\n'.join(lines) + '\n'


def execute_pauxdirs(record, res):
    sw = record['swarm']
    R = sw['renderer']
    na, nb, nm = sw['names']
    root = lifetimes.make_root('c20pd')
    top = os.path.join(root, 'top')
    viol, log, info = [], [], {}
    try:
        dA, dB = sw.get('dirs') or ['partA', 'partB']
        for d in (dA, dB):
            os.makedirs(os.path.join(top, d))
        if sw.get('via') == 'config':
            with open(os.path.join(top, 'pd.cfg'), 'w') as f:
                f.write('[general]\npaux-dirs = "%s" %s\n' % (dA, dB))
            info['pauxdirs_from_config_file'] = 1
        labsA = ['pdaL0', 'pdaL1']
        labsB = ['pdbL0', 'pdbL1', 'pdbL2']
        with open(os.path.join(top, dA, na + '.tex'), 'w') as f:
            f.write(_pd_source('pda', 2, []))
        with open(os.path.join(top, dB, nb + '.tex'), 'w') as f:
            f.write(_pd_source('pdb', 3, []))
        with open(os.path.join(top, nm + '.tex'), 'w') as f:
            f.write(_pd_source('pdm', 1, labsA + labsB))
        clock = lifetimes.T0 + 3600

        def run(cwd, name, paux_dirs=None):
            setup = {'root': top, 'cwd': cwd, 'clock': clock, 'crash': None, 'env': {'environ': {'HOME': top, 'TEXINPUTS': cwd}}}
            a = {'file': name + '.tex', 'renderer': R, 'base_url': '', 'paux_dirs': paux_dirs}
            if paux_dirs and sw.get('via') == 'config':
                a.update(paux_dirs=None, config_file='pd.cfg')
            return lifetimes.run_lifetime(JOB, a, setup, timeout=600)
        saved = {}
        for d, name in ((dA, na), (dB, nb)):
            st, out = run(os.path.join(top, d), name)
            if st != 'ok' or not out.get('ok'):
                viol.append({'sig': 'C20|escape|%s|%s' % (_site(out.get('traceback', '')), out.get('exception')),
                             'detail': {'job': d, 'traceback': (out.get('traceback') or '')[-800:]}})
                break
            saved[d] = out['result']['saved'] or {}
            log.append([d, sorted(saved[d])])
        for op in record['ops']:
            if op.get('op') != 'PD' or viol:
                continue
            damaged = None
            if op.get('damage'):
                kind, which = op['damage']
                d, name = ((dA, na), (dB, nb))[which % 2]
                p = os.path.join(top, d, name + '.paux')
                data = open(p, 'rb').read()
                if kind == 'truncate':
                    open(p, 'wb').write(data[:len(data) // 2])
                elif kind == 'empty':
                    open(p, 'wb').write(b'')
                elif kind == 'notpickle':
                    open(p, 'wb').write(b'<html>not a pickle</html>')
                elif kind == 'delete':
                    os.remove(p)
                elif kind == 'foreign':
                    open(p, 'wb').write(pickle.dumps({'Other': {'zz': {'ref': '9', 'id': 'zz'}}}))
                damaged = d
                info['pauxdirs_damaged_part'] = 1
            st, out = run(top, nm, paux_dirs=[dA, dB])
            if st != 'ok' or not out.get('ok'):
                viol.append({'sig': 'C20|escape|%s|%s' % (_site(out.get('traceback', '')), out.get('exception')),
                             'detail': {'job': 'main', 'damage': op.get('damage'), 'traceback': (out.get('traceback') or '')[-800:]}})
                break
            restored = out['result']['restored'] or {}
            log.append(['main', sorted(restored), op.get('damage')])
            info['pauxdirs_main_run'] = 1
            if na == nb:
                info['pauxdirs_same_job_name'] = 1
            for d in (dA, dB):
                want = dict((lab, (v['ref'], v['title'], v['url'])) for lab, v in saved[d].items())
                got = dict((lab, (x['ref'], x['title'], x['url'])) for lab, x in restored.items() if lab in want)
                if d == damaged:
                    if got and got != want:
                        viol.append({'sig': 'C20|atworst-absent|pauxdirs', 'detail': {'part': d, 'got': got, 'saved': want, 'damage': op.get('damage')}})
                    continue
                if got != want:
                    viol.append({'sig': 'C20|roundtrip|pauxdirs-%s' % ('missing-label' if len(got) < len(want) else 'wrong-data'),
                                 'detail': {'part': d, 'got': got, 'saved': want, 'names': sw['names'], 'damage': op.get('damage')}})
                    break
            if viol:
                break
            # the references of the main document resolve to the restored data
            for labattr, target, intree in out['result']['refs'] or []:
                if target is None or not isinstance(target.get('id'), str):
                    continue
                lab = target['id']
                if lab in restored and (target['ref'], target['url']) != (restored[lab]['ref'], restored[lab]['url']):
                    viol.append({'sig': 'C20|ref|wrong-target', 'detail': {'label': lab, 'target': target, 'restored': restored[lab]}})
                    break
    finally:
        lifetimes.remove_root(root)
    res['violations'] = viol[:1]
    res['probes'] = dict((k, 1) for k in info)
    res['nontrivial'] = 'pauxdirs_main_run' in info
    res['steps'] = len(log)
    res['digest'] = core.hexdigest([record['swarm'], record['ops']])
    res['log_digest'] = core.hexdigest(log)
    res['states'] = [core.h64(core.hexdigest(log))]
    return res


def execute(record):
    res = core.empty_result()
    if record['swarm'].get('pauxdirs'):
        return execute_pauxdirs(record, res)
    root = lifetimes.make_root('c20')
    try:
        sim = Sim(record, os.path.join(root, 'proj'))
    except Exception:
        lifetimes.remove_root(root)
        raise
    try:
        sim.run(record['ops'])
    finally:
        lifetimes.remove_root(root)
        if os.path.exists(root + '.snap'):
            shutil.rmtree(root + '.snap', ignore_errors=True)
    res['violations'] = sim.viol
    res['probes'] = dict((k, 1) for k in sim.info)
    res['faults_fired'] = sim.fired
    res['faults_configured'] = sim.configured
    res['sim_time'] = sim.clock - lifetimes.T0
    res['steps'] = len(sim.log)
    res['nontrivial'] = bool(sim.fired) and (sim.fault_then_jobs >= 1 or getattr(sim, 'sweep_cases', 0) > 0)
    res['sub_evaluations'] = getattr(sim, 'sweep_cases', 0)
    res['sub_distinct'] = getattr(sim, 'sweep_distinct', 0)
    res['digest'] = core.hexdigest([record['swarm']['docs'], record['swarm']['renderers'], sim.plan_digest,
                                    [o for o in record['ops'] if o.get('op') != 'RUN' or o.get('crash')]])
    res['log_digest'] = core.hexdigest(sim.log)
    res['states'] = [core.h64(core.hexdigest(sorted((n, f['state'], sorted(f['cands'][0])) for n, f in sim.files.items())))]
    return res
