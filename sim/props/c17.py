"""C17 - a document's result does not depend on what was processed before it.

One simulated interpreter lifetime processes a history of jobs A1..Ak;B
(k<=4), each job = real plasTeX.client.main (config, parse, render into its own
output directory, persist) with the simulated clock jumping between jobs; every
job of the history is compared with the same job processed ALONE in a fresh
lifetime at the same simulated instant (V1, observable equivalence: toXML +
every file the job wrote, generated identifiers renamed by first appearance),
and after every completed job the tracked interpreter-wide parsing state is
compared with its pristine value (V2, state equality in the categories the
statement names).  EOF faults: a job's source may be cut at a seeded offset,
which is how "math or lists left open at end of input" arises.  A seeded
fraction of the references runs in an exec'd interpreter under another
PYTHONHASHSEED ("a fresh interpreter" has one).
"""
import os
import re

from .. import core
from .. import lifetimes

PID = 'C17'

META = {
    'level': 'exploration',
    'runs': {'quick': 300, 'thorough': 12000},
    'batch': {'quick': 4, 'thorough': 10},
    'wall_cap': {'quick': 900, 'thorough': 3300},
    'rule': ('seeded job histories A1..Ak;B (k<=4) of generated documents assembled from state-writing and '
             'state-reading blocks, with EOF cuts, clock jumps, two pristine bases; non-trivial iff at least one '
             'state-writing block precedes a later job holding a probe block of the same state family; distinct = '
             'digest of the job sources + configs'),
    'components': {
        'real': ['plasTeX.client.main', 'plasTeX.Compile', 'plasTeX.TeX / Context / Base / Packages', 'Renderers HTML5, XHTML + templates',
                 'Context.persist', 'jinja2, simpletal', 'real directory tree'],
        'stub': ['wall clock (SimClock; frozen inside a job, jumps between jobs)', 'subprocess.Popen (failing recorder)',
                 'imagers disabled by configuration', 'fresh interpreter = forked pristine parent (85%) or exec\'d python '
                 'with another PYTHONHASHSEED (15%)']},
    'assumptions': ['V2 depends on a curated list of attribute names that count as parsing state (DESIGN 5.2); other drifts '
                    'are reported as the probe untracked_drift and only V1 can catch their effects',
                    'jobs that raise are outside the premise ("processed to completion"): the history is cut there',
                    'canonicalisation renames generated identifiers a<digits> by first appearance'],
    'probe_names': ['macro_fuzz', 'corpus_pair', 'eof_cut_inside_math', 'eof_cut_inside_list', 'aborted_histories', 'untracked_drift', 'exec_reference',
                    'clock_jump_years', 'same_input_twice', 'job_after_truncated_job', 'v1_compared', 'full_base'],
    'shrink_budget': 40,
    'enum_batch': {'quick': 4, 'thorough': 4},
}
RUN_TIMEOUT = 3600
JOB = 'sim.props.c17:history_job'

CLASSES = ['article', 'article', 'article', 'book', 'report', 'amsart', 'amsbook', 'memoir', 'beamer']
# every package module of plasTeX/Packages that loads offline in a plain document (document classes and the
# picture-drawing packages that need an external imager excluded)
PACKAGES = ['CJK', 'CJKutf8', 'a4', 'a4wide', 'afterpage', 'alltt', 'amsbsy', 'amscd', 'amsfonts', 'amsmath', 'amsopn', 'amssymb',
            'amsthm', 'babel', 'bbding', 'bbm', 'bbold', 'booktabs', 'cancel', 'caption', 'ccaption', 'changebar', 'cleveref',
            'color', 'comment', 'dsfont', 'endfloat', 'enumerate', 'epsf', 'eso-pic', 'fancybox', 'fancyhdr', 'fancyvrb', 'fleqn',
            'float', 'fontenc', 'geometry', 'graphics', 'graphicx', 'hyperref', 'ifpdf', 'iftex', 'ifthen', 'imakeidx', 'inputenc',
            'keyval', 'lipsum', 'listings', 'lmodern', 'longtable', 'makeidx', 'marginnote', 'mathtime', 'mathtools', 'microtype',
            'minitoc', 'multicol', 'nameref', 'natbib', 'pslatex', 'quotchap', 'rotating', 'setspace', 'shortvrb', 'splitbib',
            'subfig', 'subfigure', 'tabularx', 'tabulary', 'textcomp', 'textpos', 'times', 'tocbibind', 'todonotes', 'type1cm',
            'ucs', 'unicode-math', 'url', 'verbatim', 'verse', 'wasysym', 'wrapfig', 'xcolor', 'xr', 'xr-hyper']

# block id -> (family, kind 'W'|'R'|'N', LaTeX text with %(n)s = block ordinal)
BLOCKS = {
    'reg_parindent': ('register', 'W', '\\parindent=5pt\n'),
    'reg_tolerance': ('register', 'W', '\\tolerance=77\n'),
    'reg_parskip': ('register', 'W', '\\setlength{\\parskip}{3pt}\n'),
    'reg_addto': ('register', 'W', '\\addtolength{\\parindent}{2pt}\n'),
    'reg_textwidth': ('register', 'W', '\\setlength{\\textwidth}{100pt}\n'),
    'reg_newlength': ('register', 'W', '\\newlength{\\mylen}\\setlength{\\mylen}{7pt}\n'),
    'reg_newcount': ('register', 'W', '\\newcount\\mycnt \\mycnt=42\n'),
    'reg_baselineskip': ('register', 'W', '\\baselineskip=20pt\n'),
    'reg_hsize': ('register', 'W', '\\hsize=300pt\n'),
    'probe_ifdim': ('register', 'R', 'P%(n)s:\\ifdim\\parindent=5pt A\\else B\\fi.\n'),
    'probe_ifdim7': ('register', 'R', 'P%(n)s:\\ifdim\\parindent=7pt A\\else B\\fi.\n'),
    'probe_ifnum': ('register', 'R', 'P%(n)s:\\ifnum\\tolerance=77 C\\else D\\fi.\n'),
    'probe_parskip': ('register', 'R', 'P%(n)s:\\ifdim\\parskip=3pt E\\else F\\fi.\n'),
    'probe_textwidth': ('register', 'R', 'P%(n)s:\\ifdim\\textwidth=100pt G\\else H\\fi.\n'),
    'probe_baselineskip': ('register', 'R', 'P%(n)s:\\ifdim\\baselineskip=20pt I\\else J\\fi.\n'),
    'probe_hsize': ('register', 'R', 'P%(n)s:\\ifdim\\hsize=300pt K\\else L\\fi.\n'),
    'coltype_def': ('coltype', 'W', '\\newcolumntype{Z}{>{\\bfseries}c}\n'),
    'coltype_use': ('coltype', 'R', '\\newcolumntype{Z}{c}\\begin{tabular}{lZr}a&b&c\\\\d&e&f\\end{tabular}\n'),
    'tabular_base': ('coltype', 'R', '\\begin{tabular}{|l|c|r|p{2cm}|}a&b&c&d\\\\\\hline e&f&g&h\\end{tabular}\n'),
    'tabular_at': ('coltype', 'R', '\\begin{tabular}{l@{x}c*{2}{r}}a&b&c&d\\end{tabular}\n'),
    'theorem_own': ('theorem', 'W', '\\newtheorem{thm%(n)s}{Theorem}\\begin{thm%(n)s}T%(n)s body.\\end{thm%(n)s}\n'),
    'theorem_within': ('theorem', 'W', '\\newtheorem{lem%(n)s}{Lemma}[section]\\begin{lem%(n)s}L%(n)s body.\\end{lem%(n)s}\n'),
    'newif': ('newif', 'W', '\\newif\\ifmyflag \\myflagtrue \\ifmyflag yes%(n)s\\else no%(n)s\\fi\n'),
    'newif_probe': ('newif', 'R', '\\newif\\ifmyflag \\ifmyflag set%(n)s\\else unset%(n)s\\fi\n'),
    'newcommand': ('macro', 'W', '\\newcommand{\\mymac}[1]{<#1>}\\mymac{m%(n)s}\n'),
    'def_global': ('macro', 'W', '\\gdef\\gmac{G%(n)s}\\gmac\n'),
    'macro_probe': ('macro', 'R', '\\providecommand{\\mymac}[1]{[#1]}\\mymac{q%(n)s}\n'),
    'newcounter': ('counter', 'W', '\\newcounter{cnt%(n)s}\\setcounter{cnt%(n)s}{5}\\thecnt%(n)s\n'),
    'setcounter_section': ('counter', 'W', '\\setcounter{section}{7}\n'),
    'section': ('counter', 'R', '\\section{Sec %(n)s}\\label{sec%(n)s} Text s%(n)s.\n'),
    'subsection': ('counter', 'R', '\\subsection{Sub %(n)s} Text u%(n)s.\n'),
    'equation': ('counter', 'R', '\\begin{equation}\\label{eq%(n)s} x=%(n)s \\end{equation}\n'),
    'appendix': ('counter', 'W', '\\appendix\n\\section{App %(n)s} Text a%(n)s.\n'),
    'makeatletter': ('catcode', 'W', '\\makeatletter\\def\\my@mac{at%(n)s}\\my@mac\n'),
    'catcode_active': ('catcode', 'W', '\\catcode`\\|=13 \n'),
    'catcode_probe': ('catcode', 'R', 'bar|bar%(n)s and at@sign.\n'),
    'ifthen_math': ('math', 'W', '\\ifthenelse{\\(1<2\\) \\and \\(2<3\\)}{it%(n)s}{if%(n)s}\n'),
    'ifthen_plain': ('math', 'R', '\\ifthenelse{1<2}{jt%(n)s}{jf%(n)s}\n'),
    'math_inline': ('math', 'R', 'Text $x_%(n)s+y$ more $z$.\n'),
    'math_display': ('math', 'R', 'Text $$a_%(n)s=b$$ more.\n'),
    'math_paren': ('math', 'R', 'Text \\(p_%(n)s\\) and \\[q\\] more.\n'),
    'math_open': ('math', 'W', 'Open $x_%(n)s + '),
    'list_enum': ('list', 'R', '\\begin{enumerate}\\item e%(n)s\\begin{enumerate}\\item n%(n)s\\item m\\end{enumerate}\\item f\\end{enumerate}\n'),
    'list_item': ('list', 'R', '\\begin{itemize}\\item i%(n)s\\item j\\end{itemize}\n'),
    'list_desc': ('list', 'R', '\\begin{description}\\item[t%(n)s] d\\end{description}\n'),
    'list_open': ('list', 'W', '\\begin{itemize}\\item open%(n)s\\begin{enumerate}\\item deeper '),
    'ref': ('crossref', 'R', 'See \\ref{sec1} and \\pageref{sec1} * star%(n)s.\n'),
    'refstar': ('crossref', 'R', 'See \\ref*{sec1} s%(n)s, \\ref{nolabel}.\n'),
    'today': ('clock', 'R', 'Date \\today.\n'),
    'year': ('clock', 'R', 'Year \\the\\year.\n'),
    'footnote': ('misc', 'N', 'Foot\\footnote{fn%(n)s} note.\n'),
    'verb': ('misc', 'N', 'Verb \\verb|v%(n)s{}| end.\n'),
    'verbatim': ('misc', 'N', '\\begin{verbatim}\nverb%(n)s \\x {}\n\\end{verbatim}\n'),
    'textbf': ('misc', 'N', 'Some \\textbf{bold%(n)s} and \\emph{em}.\n'),
    'index': ('misc', 'N', 'Idx\\index{key%(n)s} entry.\n'),
    'cite': ('misc', 'N', 'Cite \\cite{k%(n)s}.\n'),
    'figure': ('counter', 'R', '\\begin{figure}fig%(n)s\\caption{Cap %(n)s}\\label{fig%(n)s}\\end{figure}\n'),
    'table': ('counter', 'R', '\\begin{table}\\begin{tabular}{c}t%(n)s\\end{tabular}\\caption{TCap %(n)s}\\end{table}\n'),
    'color': ('misc', 'N', '{\\color{red}red%(n)s}\n'),
    'href': ('misc', 'N', '\\href{http://example.com/%(n)s}{link%(n)s}\n'),
    'let': ('macro', 'W', '\\let\\oldbf\\textbf \\oldbf{let%(n)s}\n'),
    'renewcommand': ('macro', 'W', '\\renewcommand{\\emph}[1]{EM(#1)}\\emph{x%(n)s}\n'),
    'emph_probe': ('macro', 'R', 'An \\emph{emphasis%(n)s}.\n'),
    'renew_thesection': ('counter', 'W', '\\renewcommand{\\thesection}{S\\arabic{section}}\n'),
    'pagestyle': ('misc', 'N', '\\pagestyle{empty}\n'),
    'title': ('misc', 'N', '\\title{Title %(n)s}\\author{Auth}\\maketitle\n'),
    'toc': ('misc', 'N', '\\tableofcontents\n'),
    'reg_from_reg': ('register', 'W', '\\newmuskip\\myms \\myms=\\thickmuskip \\newskip\\mysk \\mysk=\\parskip \\newdimen\\mydm \\mydm=\\parindent '
                                      '\\newcount\\myct \\myct=\\tolerance \\thinmuskip=\\medmuskip \\relax r%(n)s\n'),   # every register kind assigned from another register
    'reg_muskip': ('register', 'W', '\\thinmuskip=4mu plus 1mu \n'),
    'reg_glue': ('register', 'W', '\\parskip=3pt plus 1pt \n'),
    'reg_mudimen_free': ('register', 'W', '\\medmuskip=5mu\n'),
    'tabular_open': ('open', 'W', '\\begin{tabular}{ll} a%(n)s & b \\\\ c & '),
    'figure_open': ('open', 'W', '\\begin{figure} fig%(n)s \\caption{Open cap'),
    'verbatim_open': ('open', 'W', '\\begin{verbatim}\nopen%(n)s \\x {\n'),
    'footnote_open': ('open', 'W', 'Foot\\footnote{open%(n)s \\textbf{bold '),
    'quote_open': ('open', 'W', '\\begin{quote} q%(n)s \\begin{center} c '),
    'thm_open': ('open', 'W', '\\newtheorem{othm}{OThm}\\begin{othm} t%(n)s '),
    'equation_open': ('open', 'W', '\\begin{equation} x_%(n)s = \\frac{1}{'),
    'array_open': ('open', 'W', '$\\begin{array}{cc} a & b_%(n)s \\\\ c'),
    'group_open': ('open', 'W', '{\\bfseries {\\itshape open%(n)s '),
    'ifthen_open': ('open', 'W', '\\ifthenelse{\\(1<2\\) \\and '),
    'verb_open': ('open', 'W', 'Verb \\verb|open%(n)s'),
    'section_open': ('open', 'W', '\\section{Open %(n)s'),
    'description_open': ('open', 'W', '\\begin{description}\\item[term%(n)s'),
    'open_readers': ('open', 'R', 'R%(n)s \\begin{tabular}{lr}a&b\\end{tabular} \\begin{quote}q\\end{quote} F\\footnote{f} '
                                  '\\begin{equation}x\\end{equation} \\verb|v| {\\bfseries b} $\\begin{array}{c}a\\end{array}$ \\begin{description}\\item[t] d\\end{description}\n'),
    # environment classes related by inheritance (class-level caches such as @locals / @arguments are keyed per class)
    'env_eqnarray_star': ('envs', 'W', '\\begin{eqnarray*} a_%(n)s &=& b \\\\ c &=& d \\end{eqnarray*}\n'),
    'env_eqnarray': ('envs', 'R', '\\begin{eqnarray} a_%(n)s &=& b \\\\ c &=& d \\\\ e &=& f \\end{eqnarray}\\begin{equation} g=h \\end{equation}\n'),
    'env_tabular': ('envs', 'W', '\\begin{tabular}{lc} t%(n)s & u \\\\ v & w \\end{tabular}\n'),
    'env_tabular_star': ('envs', 'R', '\\begin{tabular*}{5cm}{lc} ts%(n)s & u \\\\ v & w \\end{tabular*}\n'),
    'env_longtable': ('envs', 'R', '\\begin{longtable}{lc} \\caption{LT %(n)s}\\\\ h1 & h2 \\\\ \\endhead lt%(n)s & u \\\\ v & w \\end{longtable}\n'),
    'env_array': ('envs', 'W', '$\\begin{array}{cc} a_%(n)s & b \\\\ c & d \\end{array}$\n'),
    'env_align': ('envs', 'R', '\\begin{align} a_%(n)s &= b \\\\ c &= d \\end{align}\n'),
    'env_align_star': ('envs', 'W', '\\begin{align*} a_%(n)s &= b \\\\ c &= d \\end{align*}\n'),
    'env_gather': ('envs', 'R', '\\begin{gather} a_%(n)s = b \\\\ c = d \\end{gather}\n'),
    'env_multline': ('envs', 'R', '\\begin{multline} a_%(n)s = b \\\\ + c \\end{multline}\n'),
    'env_split': ('envs', 'R', '\\begin{equation}\\begin{split} a_%(n)s &= b \\\\ &= c \\end{split}\\end{equation}\n'),
    'env_cases': ('envs', 'R', '$f_%(n)s=\\begin{cases} 1 & x \\\\ 0 & y \\end{cases}$\n'),
    'env_matrix': ('envs', 'R', '$\\begin{pmatrix} a_%(n)s & b \\\\ c & d \\end{pmatrix}$\n'),
    'env_figure_star': ('envs', 'R', '\\begin{figure*} fs%(n)s \\caption{FS %(n)s}\\end{figure*}\n'),
    'env_table_star': ('envs', 'R', '\\begin{table*} ts%(n)s \\caption{TS %(n)s}\\end{table*}\n'),
    'env_center': ('envs', 'W', '\\begin{center} c%(n)s \\end{center}\n'),
    'env_flush': ('envs', 'R', '\\begin{flushleft} fl%(n)s \\end{flushleft}\\begin{flushright} fr \\end{flushright}\n'),
    'env_quotes': ('envs', 'R', '\\begin{quotation} qa%(n)s \\end{quotation}\\begin{verse} ve \\end{verse}\\begin{quote} qu \\end{quote}\n'),
    'env_minipage': ('envs', 'R', '\\begin{minipage}{3cm} mp%(n)s \\end{minipage}\n'),
    'env_abstract': ('envs', 'R', '\\begin{abstract} ab%(n)s \\end{abstract}\n'),
    'env_verbatim_star': ('envs', 'R', '\\begin{verbatim*}\nvs%(n)s x y\n\\end{verbatim*}\n'),
    'env_thebibliography': ('envs', 'R', '\\begin{thebibliography}{9}\\bibitem{k%(n)s} Ref %(n)s.\\end{thebibliography}\n'),
    'env_displaymath': ('envs', 'R', '\\begin{displaymath} d_%(n)s \\end{displaymath}\\begin{math} m \\end{math}\n'),
    'env_picture': ('envs', 'R', '\\begin{picture}(10,10)\\put(1,1){p%(n)s}\\end{picture}\n'),
    'env_tabbing': ('envs', 'R', '\\begin{tabbing} ta%(n)s \\= b \\\\ c \\> d \\end{tabbing}\n'),
    'env_trivlist': ('envs', 'R', '\\begin{trivlist}\\item tl%(n)s\\end{trivlist}\\begin{list}{-}{}\\item li\\end{list}\n'),
    'env_subequations': ('envs', 'R', '\\begin{subequations}\\begin{equation} s_%(n)s \\end{equation}\\end{subequations}\n'),
    'env_alignat': ('envs', 'R', '\\begin{alignat}{2} a_%(n)s &= b & c &= d \\end{alignat}\\begin{flalign} e &= f \\end{flalign}\n'),
    # user-extensible tables of packages: define in one document, use / provide-if-undefined in another
    'xcolor_define': ('pkgtable', 'W', '\\definecolor{accent}{rgb}{0,0.4,0.8}\\textcolor{accent}{xa%(n)s}\n'),
    'xcolor_redefine': ('pkgtable', 'W', '\\definecolor{red}{rgb}{0,0,1}\\colorlet{mine}{green}\\textcolor{red}{xr%(n)s}\n'),
    'xcolor_provide': ('pkgtable', 'R', '\\providecolor{accent}{rgb}{0.8,0,0}\\providecolor{mine}{gray}{0.5}\\textcolor{accent}{xp%(n)s}\\textcolor{mine}{q}\n'),
    'xcolor_use': ('pkgtable', 'R', '\\textcolor{red}{xu%(n)s} \\colorbox{yellow}{b} {\\color{blue}c}\n'),
    'amsthm_style': ('pkgtable', 'W', '\\theoremstyle{definition}\\newtheorem{defn%(n)s}{Definition}\\begin{defn%(n)s}d%(n)s\\end{defn%(n)s}\n'),
    'amsthm_plain': ('pkgtable', 'R', '\\newtheorem{rem%(n)s}{Remark}\\begin{rem%(n)s}r%(n)s\\end{rem%(n)s}\\begin{proof}p\\end{proof}\n'),
    'amsopn_declare': ('pkgtable', 'W', '\\DeclareMathOperator{\\myop}{myop}$\\myop x_%(n)s$\n'),
    'amsopn_provide': ('pkgtable', 'R', '\\providecommand{\\myop}{P}$\\myop y_%(n)s$\n'),
    'hypersetup': ('pkgtable', 'W', '\\hypersetup{colorlinks=true,linkcolor=blue}\\href{http://h.example/%(n)s}{h%(n)s}\n'),
    'href_plain': ('pkgtable', 'R', '\\href{http://p.example/%(n)s}{p%(n)s} \\url{http://u.example/}\n'),
    'natbib_style': ('pkgtable', 'W', '\\setcitestyle{numbers,square}\\citep{nk%(n)s}\\begin{thebibliography}{9}\\bibitem[A(2000)]{nk%(n)s} A.\\end{thebibliography}\n'),
    'natbib_cite': ('pkgtable', 'R', '\\citet{ck%(n)s} and \\citep{ck%(n)s}\\begin{thebibliography}{9}\\bibitem[B(2001)]{ck%(n)s} B.\\end{thebibliography}\n'),
    'index_entries': ('pkgtable', 'W', '\\makeindex Idx\\index{alpha%(n)s}\\index{beta!gamma}\\printindex\n'),
    'index_print': ('pkgtable', 'R', 'I\\index{delta%(n)s}\\printindex\n'),
    'lstset': ('pkgtable', 'W', '\\lstset{language=Python,basicstyle=\\small}\\begin{lstlisting}\nx%(n)s = 1\n\\end{lstlisting}\n'),
    'lstlisting': ('pkgtable', 'R', '\\begin{lstlisting}\ny%(n)s = 2\n\\end{lstlisting}\n'),
    'graphicspath': ('pkgtable', 'W', '\\graphicspath{{img%(n)s/}}\n'),
    'floatstyle': ('pkgtable', 'W', '\\floatstyle{ruled}\\newfloat{prog%(n)s}{thp}{lop}\\begin{prog%(n)s}pr\\caption{P}\\end{prog%(n)s}\n'),
    'newenvironment': ('macro', 'W', '\\newenvironment{myenv}{[}{]}\\begin{myenv}e%(n)s\\end{myenv}\n'),
    'provideenv': ('macro', 'R', '\\providecommand{\\myenvx}{U}\\myenvx %(n)s\n'),
    'captionname': ('pkgtable', 'R', '\\begin{figure}cf%(n)s\\caption{Cn %(n)s}\\end{figure} \\figurename{} \\tablename{} \\contentsname\n'),
    'input_file': ('environment', 'R', 'Inc: \\input{inc} and \\input{sub/inc2} done%(n)s.\n'),
    'input_missing': ('environment', 'W', 'Try \\InputIfFileExists{nosuchfile%(n)s}{yes}{no} \\IfFileExists{inc.tex}{have}{havenot}.\n'),
    # the same user-chosen label ids in different documents, on objects that live inside different output files
    'eq_fixed': ('crossref', 'W', '\\begin{equation}\\label{eq:main} m_%(n)s \\end{equation}\n'),
    'fig_fixed': ('crossref', 'W', '\\begin{figure}fx%(n)s\\caption{Main %(n)s}\\label{fig:main}\\end{figure}\n'),
    'thm_fixed': ('crossref', 'W', '\\newtheorem{fthm}{FT}\\begin{fthm}\\label{thm:main} ft%(n)s\\end{fthm}\n'),
    'ref_fixed': ('crossref', 'R', 'See (\\ref{eq:main}), \\ref{fig:main}, \\pageref{thm:main} and \\ref{thm:main} r%(n)s.\n'),
    'section_break': ('crossref', 'N', '\\section{Break %(n)s} Text after break %(n)s.\n'),
    'subsection_break': ('crossref', 'N', '\\subsection{Subbreak %(n)s} Text after subbreak %(n)s.\n'),
    'openout': ('switch', 'W', '\\openout\\myout=file%(n)s.aux \n'),
    'skip_dimen': ('switch', 'N', 'A\\vskip 3pt B\\hskip 2pt C%(n)s.\n'),
    'skip_glue': ('switch', 'N', 'A\\vspace{3pt plus 1pt} B\\hspace{2pt} C%(n)s.\n'),
    'mskip': ('switch', 'N', 'M $a\\mskip 3mu b\\mkern 2mu c_%(n)s$.\n'),
    'penalty': ('switch', 'N', 'A\\penalty 100 B%(n)s.\n'),
    'assign_probe': ('switch', 'R', '\\parindent=9pt Q%(n)s:\\ifdim\\parindent=9pt Y\\else N\\fi.\n'),
    'listings_pkg': ('resources', 'W', 'Uses listings resources %(n)s.\n'),
    # programs: the document loads a user package (a Python module found through --packages-dirs) that uses plasTeX's API
    'prog_coltype_right': ('program', 'W', '\\begin{tabular}{lY}pa%(n)s&pb\\end{tabular}\n'),
    'prog_coltype_center': ('program', 'R', '\\begin{tabular}{lY}qa%(n)s&qb\\end{tabular}\n'),
    'prog_charsubs': ('program', 'W', 'Wait... w%(n)s done.\n\n'),
    'dots_probe': ('program', 'R', 'Hold... h%(n)s on -- and ``quoted\'\' text.\n\n'),
    'prog_macro': ('program', 'W', '\\qpmac{m%(n)s}\n'),
    'prog_macro_probe': ('program', 'R', '\\providecommand{\\qpmac}[1]{[#1]}\\qpmac{z%(n)s}\n'),
    'prog_counter': ('program', 'W', '\\stepcounter{qpcount}C\\arabic{qpcount}.%(n)s\n'),
    'prog_counter_probe': ('program', 'R', '\\newcounter{qpcount}\\stepcounter{qpcount}D\\arabic{qpcount}.%(n)s\n'),
    'prog_newif': ('program', 'W', '\\ifqpflag T\\else F\\fi%(n)s.\n'),
    'prog_userdata': ('program', 'W', 'Userdata u%(n)s.\n'),
    'footmark_dangling': ('pkgtable', 'W', 'Dangling mark\\footnotemark{} here%(n)s.\n'),
    'footmark_pair': ('pkgtable', 'R', '\\begin{tabular}{l}price\\footnotemark\\end{tabular}\\footnotetext{note%(n)s} and plain\\footnote{fn}.\n\n'),
    'bib_a': ('pkgtable', 'W', 'Cite \\cite{ka%(n)s}.\\begin{thebibliography}{9}\\bibitem{ka%(n)s} A one.\\bibitem{kb} A two.\\end{thebibliography}\n'),
    'bib_b': ('pkgtable', 'R', 'Cite \\cite{kc} and \\cite{kd}.\\begin{thebibliography}{9}\\bibitem{kc} B one.\\bibitem{kd} B two%(n)s.\\end{thebibliography}\n'),
    'color_define_a': ('pkgtable', 'W', '\\definecolor{accent}{rgb}{1,0,0}\\textcolor{accent}{red%(n)s} \\colorbox{accent}{box}.\n'),
    'color_define_b': ('pkgtable', 'R', '\\definecolor{accent}{rgb}{0,0,1}\\textcolor{accent}{blue%(n)s} \\colorbox{accent}{box} \\textcolor[gray]{0.5}{g}.\n'),
    'natbib_sectionbib': ('pkgtable', 'W', '\\citep{sk%(n)s}\\begin{thebibliography}{9}\\bibitem[S(2002)]{sk%(n)s} S.\\end{thebibliography}\n'),   # natbib loaded with [sectionbib]
    'natbib_alias_def': ('pkgtable', 'W', '\\defcitealias{ak}{AliasText%(n)s}As \\citetalias{ak} says.\\begin{thebibliography}{9}\\bibitem[A(2000)]{ak} A.\\end{thebibliography}\n'),
    'natbib_alias_use': ('pkgtable', 'R', 'As \\citetalias{ak} and \\citepalias{ak} say %(n)s.\\begin{thebibliography}{9}\\bibitem[B(2001)]{ak} B.\\end{thebibliography}\n'),   # alias never defined here
    'color_use_undefined': ('pkgtable', 'R', 'Named \\textcolor{accent}{cu%(n)s} \\colorbox{accent}{box} \\textcolor{mine}{m}.\n'),   # names this document never defines
    'url_dashes': ('pkgtable', 'R', 'See \\url{http://example.org/one--two} u%(n)s.\n\n'),
    'href_dashes': ('pkgtable', 'W', 'See \\href{http://example.org/a--b}{link%(n)s} and \\nolinkurl{http://x.example/c--d}.\n\n'),
    'lang_probe': ('language', 'R', 'Names \\figurename, \\tablename, \\contentsname, \\abstractname, \\today %(n)s.\n'),
    # conditionals: every argument form of the argument scanner's token types (Tok, XTok, Number, Dimen) on every exit path
    'ifx_macros_multi': ('switch', 'W', '\\def\\fxa{xy}\\def\\fxb{xy}\\ifx\\fxa\\fxb S\\else D\\fi%(n)s.\n'),
    'ifx_macros_single': ('switch', 'W', '\\def\\fxa{x}\\def\\fxb{y}\\ifx\\fxa\\fxb S\\else D\\fi%(n)s.\n'),
    'ifx_macros_empty': ('switch', 'W', '\\def\\fxa{}\\ifx\\fxa\\empty S\\else D\\fi%(n)s.\n'),
    'ifx_chars': ('switch', 'W', '\\ifx ab S\\else D\\fi%(n)s.\n'),
    'ifx_groups': ('switch', 'W', '\\ifx{ab}{ab} S\\else D\\fi \\ifx{a}{a} S\\else D\\fi%(n)s.\n'),
    'ifx_undefined': ('switch', 'W', '\\ifx\\fxundefined\\relax S\\else D\\fi%(n)s.\n'),
    'if_chars': ('switch', 'W', '\\if aa S\\else D\\fi \\ifcat a1 S\\else D\\fi%(n)s.\n'),
    'ifnum_forms': ('switch', 'W', '\\ifnum 1<2 S\\else D\\fi \\ifnum\\value{section}=0 S\\else D\\fi \\ifodd 3 S\\else D\\fi%(n)s.\n'),
    'ifdim_forms': ('switch', 'W', '\\ifdim 1pt<2pt S\\else D\\fi \\ifdim\\parindent>\\textwidth S\\else D\\fi%(n)s.\n'),
    'ifcase_form': ('switch', 'W', '\\ifcase 1 zero\\or one\\or two\\else other\\fi%(n)s.\n'),
    'ifthenelse_forms': ('switch', 'W', '\\ifthenelse{\\equal{ab}{ab}}{S}{D} \\ifthenelse{1<2}{S}{D} \\ifthenelse{\\isodd{3}}{S}{D}%(n)s.\n'),
    'newcount_assign': ('switch', 'R', '\\newcount\\fxtotal \\fxtotal=42 T\\the\\fxtotal. \\parskip=2pt plus 1pt Q%(n)s.\n'),
    'dimen_args_unitless': ('switch', 'W', 'A\\hspace{2}B\\vspace{1}C\\parbox{3}{box%(n)s}D\\rule{1}{2pt}E.\n'),
}
NEEDS = {'color_define_a': ['color'], 'color_use_undefined': ['color'], 'color_define_b': ['color'], 'url_dashes': ['url'], 'href_dashes': ['hyperref'], 'prog_coltype_right': ['qpa'], 'prog_coltype_center': ['qpb'], 'prog_charsubs': ['qpc'], 'prog_macro': ['qpd'],
         'prog_counter': ['qpe'], 'prog_newif': ['qpf'], 'prog_userdata': ['qpg'],
         'ifthenelse_forms': ['ifthen'], 'xcolor_define': ['xcolor'], 'xcolor_redefine': ['xcolor'], 'xcolor_provide': ['xcolor'], 'xcolor_use': ['xcolor'],
         'amsthm_style': ['amsthm'], 'amsthm_plain': ['amsthm'], 'amsopn_declare': ['amsmath'], 'amsopn_provide': ['amsmath'],
         'hypersetup': ['hyperref'], 'href_plain': ['hyperref'], 'natbib_style': ['natbib'], 'natbib_cite': ['natbib'], 'natbib_alias_def': ['natbib'], 'natbib_sectionbib': ['natbib[sectionbib]'], 'natbib_alias_use': ['natbib'],
         'index_entries': ['makeidx'], 'index_print': ['makeidx'], 'lstset': ['listings'], 'lstlisting': ['listings'],
         'graphicspath': ['graphicx'], 'floatstyle': ['float'], 'env_longtable': ['longtable'], 'env_align': ['amsmath'], 'env_align_star': ['amsmath'], 'env_gather': ['amsmath'],
         'env_multline': ['amsmath'], 'env_split': ['amsmath'], 'env_cases': ['amsmath'], 'env_matrix': ['amsmath'],
         'env_subequations': ['amsmath'], 'env_alignat': ['amsmath'], 'ifthen_open': ['ifthen'], 'listings_pkg': ['listings'], 'ifthen_math': ['ifthen'], 'ifthen_plain': ['ifthen'], 'color': ['color'], 'href': ['hyperref'],
         'coltype_def': ['array'], 'coltype_use': ['array']}
# optional command-line settings of a job (list/dict valued options are the ones a shared default object would leak)
# user packages (written to ./pk/<name>.py of the job directory, found through --packages-dirs pk)
LOCAL_PACKAGES = {
    'qpa': "from plasTeX.Base.LaTeX.Arrays import ColumnType\n\ndef ProcessOptions(options, document):\n    ColumnType.new('Y', {'text-align': 'right'})\n",
    'qpb': "from plasTeX.Base.LaTeX.Arrays import ColumnType\n\ndef ProcessOptions(options, document):\n    ColumnType.new('Y', {'text-align': 'center'})\n",
    'qpc': "def ProcessOptions(options, document):\n    document.charsubs.append(('...', chr(0x2026)))\n",
    'qpd': "from plasTeX import Command\n\nclass qpmac(Command):\n    args = 'self'\n",
    'qpe': "def ProcessOptions(options, document):\n    document.context.newcounter('qpcount', resetby='section')\n",
    'qpf': "def ProcessOptions(options, document):\n    document.context.newif('ifqpflag', True)\n",
    'qpg': "def ProcessOptions(options, document):\n    document.userdata['qp'] = document.userdata.get('qp', 0) + 1\n    document.context.newcommand('qpseen', 0, 'seen%d' % document.userdata['qp'])\n",
}
COLTYPE_PROGRAMS = ('prog_coltype_right', 'prog_coltype_center')

EXTRA_ARGV = {
    'counter': ['--counter', 'section', '5'],
    'title': ['--title', 'Configured Title'],
    'secnumdepth': ['--sec-num-depth', '1'],
    'tocdepth': ['--toc-depth', '1'],
    'baseurl': ['--base-url', 'http://base.example/'],
    'pauxdirs': ['--paux-dirs', 'nosuchdir'],
    'link': ['--link', 'next', 'http://next.example/', 'Next'],
    'charsub': ['--disable-charsub', "'"],
    'tocnonfiles': ['--toc-non-files'],
    'escape': ['--escape-high-chars'],
    'nomathjax': ['--no-mathjax'],
    'localtoc': ['--localtoc-level', '1'],
    'extracss': ['--extra-css', 'extra.css'],
    'xml': ['--xml'],
    'langterms': ['--lang-terms', 'myterms.xml'],        # a site file of language terms (written next to the job sources)
    'sectemplate': ['--filename', 'index [$id, part$num(2)]'],
    'badchars': ['--bad-filename-chars', ': #$^&*!~`"\'=?/{}[]()|<>;\\,'],
    'logfile': ['--log'],
}
LANGTERMS = ('<languages>\n  <terms lang="en">\n    <term name="figure">Fig.</term>\n    <term name="table">Tab.</term>\n'
             '    <term name="contents">Inhalt</term>\n  </terms>\n</languages>\n')
BLOCK_IDS = sorted(b for b in BLOCKS if not b.endswith('_open'))
OPENERS = sorted(b for b in BLOCKS if b.endswith('_open'))
CONFLICTS = [('newif', 'newif_probe'), ('coltype_def', 'coltype_use')]


CORPUS = ['unittests/amsthm/source.tex', 'unittests/sources/floats.tex', 'unittests/sources/Alignment.tex',
          'unittests/sources/cancel.tex', 'unittests/sources/align.tex', 'unittests/sources/footnotes.tex',
          'unittests/empty_article.tex', 'unittests/Packages/sources/natbib.tex', 'unittests/Packages/sources/pifont.tex',
          'unittests/Packages/sources/bib.tex', 'unittests/Packages/sources/textcomp.tex',
          'unittests/Packages/sources/babel.tex', 'unittests/Packages/sources/multibib.tex']


MANUAL = 'Doc/plastex.tex'


def corpus_source(rel):
    """A document of the repository's own test corpus (sources are data, not code under test)."""
    try:
        with open(os.path.join(core.REPO, rel), encoding='utf-8') as f:
            return f.read()
    except OSError:
        return None


def job_source(job):
    if job.get('raw') is not None:
        body = ' '.join('%s fz%d' % (t, k) for k, t in enumerate(job['raw']))
        use = ''.join('\\usepackage%s{%s}\n' % ({'babel': '[french]', 'inputenc': '[utf8]', 'fontenc': '[T1]', 'geometry': '[margin=1in]'}.get(q, ''), q)
                      for q in job.get('packages', []))
        return '\\documentclass{%s}\n%s\\begin{document}\n\\section{Fz}\\label{fzl1}\n%s\n\\end{document}\n' % (job.get('cls', 'article'), use, body)
    if job.get('corpus'):
        return corpus_source(job['corpus']) or '\\documentclass{article}\\begin{document}missing corpus file\\end{document}\n'
    lines = ['\\documentclass{%s}' % job['cls']]
    pk = list(job['packages'])
    popt = {}
    for b in job['blocks']:
        for need in NEEDS.get(b, []):
            if '[' in need:                      # 'natbib[sectionbib]': the block needs the package loaded with these options
                need, o = need.split('[', 1)
                popt.setdefault(need, '[' + o)
            if need not in pk:
                pk.append(need)
    for p in pk:
        opt = popt.get(p) or {'babel': '[french]', 'inputenc': '[utf8]', 'fontenc': '[T1]', 'geometry': '[margin=1in]'}.get(p, '')
        if p == 'xcolor' and 'color' in pk:
            continue
        lines.append('\\usepackage%s{%s}' % (opt, p))
    pre = [b for b in job['blocks'] if b in ('coltype_def',)]
    lines.append('\\begin{document}')
    seen = set()
    for n, b in enumerate(job['blocks']):
        skip = False
        for x, y in CONFLICTS:
            if (b == x and y in seen) or (b == y and x in seen):
                skip = True
        if skip or b not in BLOCKS:
            continue
        seen.add(b)
        lines.append(BLOCKS[b][2] % {'n': str(n + 1)})
    lines.append('\\end{document}')
    src = '\n'.join(lines) + '\n'
    if job.get('cut') == 999:
        return src[:src.rindex('\\end{document}')]          # end of input while the last block's construct is open
    if job.get('cut') == 998:
        return src                                          # \end{document} arrives while it is open
    if job.get('cut') is not None:
        body = src.index('\\begin{document}') + len('\\begin{document}')
        span = len(src) - body
        src = src[:body + int(span * job['cut'] / 1000.0)]
    return src


def generate(seed, tier):
    R = core.Rngs(seed)
    r = R('workload')
    k = r.choice([1, 1, 2, 2, 3, 4])
    fams = sorted(set(v[0] for v in BLOCKS.values()))
    focus = r.sample(fams, r.randint(1, 3))       # swarm: concentrate on a few state families per run
    pool = [b for b in BLOCK_IDS if BLOCKS[b][0] in focus or r.random() < 0.15]
    ops = []
    njobs = k + 1
    for j in range(njobs):
        last = (j == njobs - 1)
        blocks = []
        for _ in range(r.randint(2, 8)):
            b = r.choice(pool)
            kind = BLOCKS[b][1]
            if last and kind == 'W' and r.random() < 0.6:
                continue
            if not last and kind == 'R' and r.random() < 0.4:
                continue
            blocks.append(b)
        if last and not any(BLOCKS[b][1] == 'R' for b in blocks):
            cand = [b for b in pool if BLOCKS[b][1] == 'R'] or ['math_inline']
            blocks.append(r.choice(cand))
        job = {'op': 'JOB', 'cls': r.choice(CLASSES), 'packages': r.sample(PACKAGES, r.choice([0, 0, 1, 2, 3, 5])),
               'blocks': blocks, 'cut': None, 'renderer': r.choice(['HTML5', 'HTML5', 'XHTML']),
               'split': r.choice([2, 2, 0, -10, 3]), 'theme': r.choice(['default', 'default', 'minimal']),
               'dt': r.choice([1, 3600, 86400, 31 * 86400, 400 * 86400, -86400]),
               'extra': r.sample(sorted(EXTRA_ARGV), r.choice([0, 0, 0, 1, 1, 2]))}
        if not last and r.random() < 0.3:
            job['cut'] = r.randrange(200, 1000)
        if not last and r.random() < 0.25 and not any(b.endswith('_open') for b in blocks):
            job['blocks'] = blocks + [r.choice(OPENERS)]
            job['cut'] = r.choice([999, 999, 998])
        ops.append(job)
    if MACROFUZZ and r.random() < 0.3:
        # macro-fuzz mode: every job is a bag of generic invocations of the user-level macros of plasTeX.Base.LaTeX
        # (sim/macrofuzz.py); the record carries the generated LaTeX text itself
        rm = R('macrofuzz')
        base = [e for e in MACROFUZZ if e[4] is None]
        bypkg = {}
        for e in MACROFUZZ:
            if e[4] is not None:
                bypkg.setdefault(e[4], []).append(e)
        for op in ops:
            pk = rm.sample(sorted(bypkg), rm.choice([0, 0, 1, 1, 2]))
            pool = [e for q in pk for e in bypkg[q]]
            op['raw'] = [(rm.choice(pool) if pool and rm.random() < 0.5 else rm.choice(base))[1] for _ in range(rm.randint(3, 12))]
            op['blocks'] = []
            op['packages'] = pk
            op['cut'] = None
    elif r.random() < 0.35 and len(ops) >= 2:
        # paired mode: the last job and one earlier job are built around ONE state family - the earlier one writes it,
        # the last one both writes its own and reads it, with section breaks moving things into other output files
        fam = r.choice(fams)
        W = [b for b in BLOCK_IDS if BLOCKS[b][0] == fam and BLOCKS[b][1] == 'W']
        Rd = [b for b in BLOCK_IDS if BLOCKS[b][0] == fam and BLOCKS[b][1] in ('R', 'N')]
        if W and Rd:
            a = ops[r.randrange(len(ops) - 1)]
            a['blocks'] = [r.choice(W) for _ in range(r.randint(1, 3))] + a['blocks'][:2]
            a['cut'] = None
            b = ops[-1]
            mine = [r.choice(['section_break', 'subsection_break']) for _ in range(r.randint(0, 3))]
            mine += [r.choice(W) for _ in range(r.randint(0, 2))] + [r.choice(Rd) for _ in range(r.randint(1, 3))]
            r.shuffle(mine)
            b['blocks'] = mine
    if r.random() < 0.12 and len(ops) >= 2:       # the "same input twice" case
        ops[-1] = dict(ops[-2], dt=r.choice([1, 86400]))
        ops[-1]['cut'] = None if ops[-1].get('cut') else ops[-1].get('cut')
    sw = {'scrub': r.random() < 0.5, 'base': r.choice(['minimal', 'minimal', 'full']),
          'exec_ref': r.random() < 0.15, 'hashseed': r.randrange(1, 1 << 30),
          'texinputs': r.choice(['root', 'root', 'root', 'unset'])}     # (an EMPTY value comes back as unset: equivalent, not generated)
    if any(b in COLTYPE_PROGRAMS for o in ops for b in o['blocks']):
        # the column-type registry is an OPEN finding that cannot be scrubbed (a dict mutated in place): keep the other
        # open findings out of such a history, so that a V1 difference there is attributable to column types alone
        sw['scrub'] = True
        for o in ops:
            if o['cls'] == 'beamer':
                o['cls'] = 'article'
    return {'property': PID, 'seed': seed, 'swarm': sw, 'ops': ops}


# --------------------------------------------------------------------------
# inside the lifetime

ID_RE = re.compile(r'\ba\d{9,}\b')


def canonical(text, table):
    def sub(m):
        s = m.group(0)
        if s not in table:
            table[s] = 'GENID%d' % len(table)
        return table[s]
    return ID_RE.sub(sub, text)


TRACK_ATTRS = set(['args', 'counter', 'level', 'format', 'trimLeft', 'macroName', 'str', 'mathMode', 'blockType',
                   'forcePars', 'captionable', 'linkType', 'templateName', 'columnTypes', 'position', 'nodeName',
                   'refAttributes', 'unicode', 'numberwithin', 'title', 'nonNormalizedAttrs', 'defaultCharsubs'])


def _stable(v, depth=0):
    import types
    if v is None or isinstance(v, (bool,)):
        return repr(v)
    if isinstance(v, (int, float, str, bytes)):
        if type(v) in (int, float, str, bytes):
            return repr(v)
        return '%s(%s)' % (type(v).__name__, (int if isinstance(v, int) else float if isinstance(v, float) else str).__repr__(v))
    if isinstance(v, type):
        return 'class:%s.%s' % (v.__module__, v.__qualname__)
    if isinstance(v, (types.FunctionType, types.BuiltinFunctionType, types.MethodType)):
        return 'func:%s' % getattr(v, '__qualname__', '?')
    if isinstance(v, (classmethod, staticmethod, property)):
        return 'descr:%s' % type(v).__name__
    if depth > 3:
        return 'obj:%s' % type(v).__name__
    if isinstance(v, (list, tuple)):
        return '[%s]' % ','.join(_stable(x, depth + 1) for x in v)
    if isinstance(v, (set, frozenset)):
        return '{%s}' % ','.join(sorted(_stable(x, depth + 1) for x in v))
    if isinstance(v, dict):
        return '{%s}' % ','.join(sorted('%s:%s' % (_stable(a, depth + 1), _stable(b, depth + 1)) for a, b in v.items()))
    if isinstance(v, types.ModuleType):
        return 'module:%s' % v.__name__
    d = getattr(v, '__dict__', None)
    if isinstance(d, dict) and depth < 2:
        return 'obj:%s%s' % (type(v).__name__, _stable(dict((k, x) for k, x in d.items() if not k.startswith('__')), depth + 1))
    return 'obj:%s' % type(v).__name__


def snapshot():
    """{path: stable repr} of interpreter-wide state of every loaded plasTeX module."""
    import sys
    import types
    snap = {}
    for modname in sorted(sys.modules):
        if not (modname == 'plasTeX' or modname.startswith('plasTeX.')):
            continue
        mod = sys.modules[modname]
        if mod is None:
            continue
        for name, obj in list(vars(mod).items()):
            if isinstance(obj, type) and obj.__module__ == modname:
                names = []
                for an, av in list(vars(obj).items()):
                    if an in ('__dict__', '__weakref__', '__doc__', '__module__', '__qualname__', '__annotations__',
                              '__firstlineno__', '__static_attributes__', '__parameters__', '__orig_bases__'):
                        continue
                    names.append(an)
                    if isinstance(av, (types.FunctionType, classmethod, staticmethod, property)):
                        continue
                    if isinstance(av, type) and av.__module__ == modname:
                        # nested class (e.g. List.item): one level
                        for bn, bv in list(vars(av).items()):
                            if bn.startswith('__') or isinstance(bv, (types.FunctionType, classmethod, staticmethod, property)):
                                continue
                            snap['%s:%s.%s.%s' % (modname, name, an, bn)] = _stable(bv)
                        continue
                    snap['%s:%s.%s' % (modname, name, an)] = _stable(av)
                snap['%s:%s.@names' % (modname, name)] = ','.join(sorted(names))
                snap['%s:%s.@bases' % (modname, name)] = ','.join(b.__qualname__ for b in obj.__bases__)
            elif isinstance(obj, (list, dict, set)) and not name.startswith('__'):
                snap['%s:%s' % (modname, name)] = _stable(obj)
    snap['sys.path'] = _stable([p for p in sys.path])
    snap['os.environ'] = _stable(dict(os.environ))
    snap['cwd'] = os.getcwd()
    return snap


def categorize(path):
    """Which category of the statement a drifted path falls in (None = untracked)."""
    tail = path.split(':', 1)[-1]
    attr = tail.rsplit('.', 1)[-1]
    if path in ('sys.path', 'os.environ', 'cwd'):
        return 'environment'
    if 'ParameterCommand.enabled' in tail or 'ParameterCommand._enablelevel' in tail:
        return 'switch'
    if attr in ('inEnv', 'depth', 'disableMath'):
        return 'tracker'
    if attr == 'value':
        return 'register'
    if attr in TRACK_ATTRS:
        return 'class-setting'
    if tail.startswith('Node.') or ':Node.' in path:
        if attr in ('renderer', '@names', '@bases'):
            return 'render-leftover'
    return None


def _job_alarm(signum, frame):
    raise TimeoutError('job exceeded its time budget')


def history_job(args, fs):
    import plasTeX
    import plasTeX.Compile
    import plasTeX.client
    from sim.lifetimes import SimClock
    if args.get('full'):
        lifetimes.preimport_all()
    pristine = snapshot()
    pristine_objs = capture_objects(pristine)
    pristine_mods = set(p.split(':')[0] for p in pristine if ':' in p)
    results = []
    real_parse = plasTeX.Compile.parse
    holder = {}

    def parse(filename, config):
        tex = real_parse(filename, config)
        holder['xml'] = tex.ownerDocument.toXML()
        return tex

    plasTeX.Compile.parse = parse
    root = os.getcwd()
    # small include files next to the job sources (kpsewhich juggles TEXINPUTS in os.environ while looking them up)
    with open('inc.tex', 'w') as f:
        f.write('included text\n')
    os.makedirs('sub', exist_ok=True)
    with open(os.path.join('sub', 'inc2.tex'), 'w') as f:
        f.write('nested include \\input{inc}\n')
    with open('myterms.xml', 'w') as f:
        f.write(LANGTERMS)
    os.makedirs('pk', exist_ok=True)
    for pkname, pksrc in sorted(LOCAL_PACKAGES.items()):
        with open(os.path.join('pk', pkname + '.py'), 'w') as f:
            f.write(pksrc)
    for job in args['jobs']:
        if job.get('copydir'):
            # a multi-file document of the corpus: its \input files, class files and pictures (data, copied by the harness)
            import shutil
            for dirpath, dirnames, filenames in os.walk(job['copydir']):
                dirnames.sort()
                reld = os.path.relpath(dirpath, job['copydir'])
                os.makedirs(reld, exist_ok=True)
                for fn in sorted(filenames):
                    dst = os.path.join(reld, fn)
                    if not os.path.exists(dst):
                        shutil.copyfile(os.path.join(dirpath, fn), dst)
    for j, job in enumerate(args['jobs']):
        SimClock.now = job['clock']
        os.chdir(root)
        name = job['name']
        with open(name + '.tex', 'w') as f:
            f.write(job['src'])
        w0 = len(fs.writes)
        holder.clear()
        # file name first: list-valued options (nargs='+') would otherwise swallow it
        argv = [name + '.tex', '--renderer', job['renderer'], '--imager', 'none', '--vector-imager', 'none',
                '--split-level', str(job['split']), '--theme', job['theme']]
        if job.get('local'):
            argv += ['--packages-dirs', 'pk']
        for x in job.get('extra', []):
            if x in EXTRA_ARGV and not (job['renderer'] != 'HTML5' and x in ('nomathjax', 'localtoc', 'extracss')):
                argv += EXTRA_ARGV[x]
        out = {'name': name, 'ok': True}
        try:
            import signal as _signal
            _signal.signal(_signal.SIGALRM, _job_alarm)
            _signal.alarm(180)           # a job that hangs is a job that did not complete (outside the premise)
            plasTeX.client.main(argv)
            _signal.alarm(0)
        except BaseException as e:
            import traceback
            _signal.alarm(0)
            out.update(ok=False, exception=type(e).__name__, message=str(e)[:300], traceback=traceback.format_exc()[-1500:])
        os.chdir(root)
        table = {}
        # (the job directory differs between the history and the stand-alone lifetime: its path is not part of the result)
        out['xml'] = canonical(holder.get('xml', '').replace(root, '<JOBDIR>'), table) if 'xml' in holder else None
        files = {}
        for rel in sorted(set(fs.writes[w0:])):
            if rel == name + '.tex':
                continue
            if rel in fs.copied or rel.endswith(('.css', '.js', '.png', '.gif', '.jpg', '.svg', '.woff', '.ttf', '.eot', '.map', '.paux')):
                files[rel] = 'ASSET'          # verbatim copies / binary: the NAME is compared, not the bytes
                continue
            p = os.path.join(fs.root, rel)
            try:
                with lifetimes._real['open'](p, 'rb') as f:
                    data = f.read()
                files[rel] = canonical(data.decode('utf-8', 'replace').replace(root, '<JOBDIR>'), table)
            except Exception as e:
                files[rel] = 'UNREADABLE:%s' % type(e).__name__
        out['files'] = files
        # label files are the cross-DOCUMENT channel (C20), not interpreter state: a job must not see the
        # .paux of the jobs before it, or it would legitimately resolve their labels (harness action, logged)
        for fn in sorted(lifetimes._real['listdir'](root)):
            if fn.endswith('.paux'):
                lifetimes._real['remove'](os.path.join(root, fn))
                fs.event('harness-remove', fn)
        snap = snapshot()
        drift = {}
        for path in set(pristine) | set(snap):
            if pristine.get(path) != snap.get(path):
                if ':' in path and path.split(':')[0] not in pristine_mods:
                    continue        # module imported after the pristine snapshot: outside V2
                drift[path] = [str(pristine.get(path))[:160], str(snap.get(path))[:160]]
        out['drift'] = drift
        results.append(out)
        if not out['ok']:
            break
        if args.get('scrub'):
            out['scrubbed'] = scrub(drift, pristine_objs, args['scrub'])
    return results


_MISSING = object()


def _resolve(path):
    """'mod:Cls.inner.attr' -> (owner class, attr)"""
    import sys
    modname, tail = path.split(':', 1)
    parts = tail.split('.')
    obj = sys.modules[modname]
    for p in parts[:-1]:
        obj = vars(obj)[p] if isinstance(obj, type) else getattr(obj, p)
    return obj, parts[-1]


def capture_objects(paths):
    out = {}
    for path in paths:
        if ':' not in path or path.rsplit('.', 1)[-1].startswith('@'):
            continue
        try:
            owner, attr = _resolve(path)
            out[path] = vars(owner).get(attr, _MISSING) if isinstance(owner, type) else _MISSING
        except Exception:
            pass
    return out


def scrub(drift, pristine_objs, patterns):
    """Harness setattr: put the drifted attributes that belong to an OPEN finding
    back to their pristine objects (and drop the per-class argument caches that
    may have been compiled from the drifted value).  Used in half of the runs so
    that a known drift cannot mask a new dependence: with those attributes
    scrubbed, any V1 difference has another cause and is reported."""
    import fnmatch
    n = 0
    for path in sorted(drift):
        if not any(fnmatch.fnmatchcase(path, p) for p in patterns):
            continue
        try:
            owner, attr = _resolve(path)
        except Exception:
            continue
        if not isinstance(owner, type):
            continue
        v = pristine_objs.get(path, _MISSING)
        if v is _MISSING:
            if attr in vars(owner):
                delattr(owner, attr)
        else:
            setattr(owner, attr, v)
        if attr == 'args':
            for cache in ('@arguments',):
                if cache in vars(owner):
                    delattr(owner, cache)
        n += 1
    return n


# --------------------------------------------------------------------------
# simulator side

MACROFUZZ = []


def prepare():
    lifetimes.pristine_parent()
    global MACROFUZZ
    if not MACROFUZZ:
        from .. import macrofuzz
        MACROFUZZ = macrofuzz.build(PACKAGES)


def enumerate_cases(base_seed, tier):
    """Every ordered pair (A;B) of the repository's own test documents, B judged against B alone."""
    import random
    out = []

    def gjob(blocks, cls='article'):
        return {'op': 'JOB', 'cls': cls, 'packages': [], 'blocks': blocks, 'cut': None, 'renderer': 'HTML5', 'split': 2,
                'theme': 'default', 'dt': 60, 'extra': []}
    # targeted writer/reader pairs, family by family: A writes the state, B reads it - once plainly, once after
    # section breaks and with a writer of its own (so that the same thing lives in another output file of B)
    cap = 12 if tier == 'quick' else 60
    fams = sorted(set(v[0] for v in BLOCKS.values()))
    for fam in fams:
        W = [b for b in BLOCK_IDS if BLOCKS[b][0] == fam and BLOCKS[b][1] == 'W']
        Rd = [b for b in BLOCK_IDS if BLOCKS[b][0] == fam and BLOCKS[b][1] == 'R']
        pairs = [(w, x) for w in W for x in Rd]
        random.Random(core.h64('C17-pairs', base_seed, fam)).shuffle(pairs)
        for k, (w, x) in enumerate(pairs[:cap]):
            for variant, bblocks in enumerate(([x], ['section_break', 'textbf', 'section_break', w, x])):
                out.append({'property': PID, 'seed': core.h64('C17-pair', fam, w, x, variant),
                            'swarm': {'scrub': False, 'base': 'minimal', 'exec_ref': False, 'hashseed': 1},
                            'ops': [gjob([w]), gjob(bblocks)]})
    # writer/reader pairs that belong to the same topic are always there (the per-family sample above may miss them)
    topic_pairs = [('xcolor_define', 'xcolor_use'), ('xcolor_define', 'xcolor_provide'), ('xcolor_redefine', 'xcolor_use'),
                   ('amsthm_style', 'amsthm_plain'), ('amsopn_declare', 'amsopn_provide'), ('hypersetup', 'href_plain'),
                   ('natbib_style', 'natbib_cite'), ('index_entries', 'index_print'), ('lstset', 'lstlisting'),
                   ('floatstyle', 'captionname'), ('footmark_dangling', 'footmark_pair'), ('bib_a', 'bib_b'), ('bib_b', 'bib_b'),
                   ('color_define_a', 'color_define_b'), ('href_dashes', 'url_dashes'),
                   ('color_define_a', 'color_use_undefined'), ('xcolor_redefine', 'color_use_undefined'),
                   ('natbib_alias_def', 'natbib_alias_use'), ('natbib_sectionbib', 'natbib_cite'), ('natbib_sectionbib', 'bib_b'),
                   ('reg_from_reg', 'reg_newlength'), ('reg_from_reg', 'reg_newcount'), ('reg_from_reg', 'reg_glue'),
                   ('prog_coltype_right', 'prog_coltype_center'), ('prog_charsubs', 'dots_probe'), ('prog_macro', 'prog_macro_probe'),
                   ('prog_counter', 'prog_counter_probe')]
    for w, x in topic_pairs:
        if w in BLOCKS and x in BLOCKS:
            out.append({'property': PID, 'seed': core.h64('C17-topic', w, x),
                        'swarm': {'scrub': False, 'base': 'minimal', 'exec_ref': False, 'hashseed': 1},
                        'ops': [gjob([w]), gjob(['section_break', x, 'textbf'])]})
    # every construct that can be left open at the end of input (cut 999: the input just ends; 998: \end{document}
    # arrives while it is open), followed by the readers of its family and a few general ones
    for o in OPENERS:
        fam = BLOCKS[o][0]
        readers = [b for b in BLOCK_IDS if BLOCKS[b][0] == fam and BLOCKS[b][1] == 'R'][:4]
        for b in ('open_readers', 'list_enum', 'math_display'):
            if b not in readers:
                readers.append(b)
        for cut in (999, 998):
            out.append({'property': PID, 'seed': core.h64('C17-open', o, cut),
                        'swarm': {'scrub': False, 'base': 'minimal', 'exec_ref': False, 'hashseed': 1},
                        'ops': [dict(gjob(['textbf', o]), cut=cut), gjob(readers)]})
    # every command-line extra (configuration reaches class-level state through ProcessOptions, term files, ...):
    # a document processed with it, then the same document without it
    probe_blocks = ['section', 'figure', 'table', 'lang_probe', 'ref', 'textbf', 'list_enum']
    for x in sorted(EXTRA_ARGV):
        for cls in (('article', 'book') if tier == 'thorough' else ('article',)):
            a = dict(gjob(probe_blocks, cls=cls), extra=[x])
            out.append({'property': PID, 'seed': core.h64('C17-extra', x, cls),
                        'swarm': {'scrub': False, 'base': 'minimal', 'exec_ref': False, 'hashseed': 1},
                        'ops': [a, gjob(probe_blocks, cls=cls)]})
    # the plasTeX manual (Doc/plastex.tex: 18 input files, ~100 output files) before and after other documents
    def mjob(rel, withdir=False):
        d = {'op': 'JOB', 'corpus': rel, 'cls': 'article', 'packages': [], 'blocks': [], 'cut': None,
             'renderer': 'HTML5', 'split': 2, 'theme': 'default', 'dt': 60, 'extra': []}
        if withdir:
            d['withdir'] = True
        return d
    others = CORPUS if tier == 'thorough' else CORPUS[1:2]
    for ib, b in enumerate(others):
        for order in ((0, 1) if tier == 'thorough' else (0,)):
            pair = [mjob(b), mjob(MANUAL, True)]
            if order:
                pair.reverse()
            out.append({'property': PID, 'seed': core.h64('C17-manual', ib, order),
                        'swarm': {'scrub': False, 'base': 'minimal', 'exec_ref': False, 'hashseed': 1}, 'ops': pair})
    if tier == 'thorough':
        out.append({'property': PID, 'seed': core.h64('C17-manual-twice'),
                    'swarm': {'scrub': False, 'base': 'minimal', 'exec_ref': False, 'hashseed': 1},
                    'ops': [mjob(MANUAL, True), mjob(MANUAL, True)]})
    for ia, a in enumerate(CORPUS):
        for ib, b in enumerate(CORPUS):
            def job(rel):
                return {'op': 'JOB', 'corpus': rel, 'cls': 'article', 'packages': [], 'blocks': [], 'cut': None,
                        'renderer': 'HTML5', 'split': 2, 'theme': 'default', 'dt': 60, 'extra': []}
            out.append({'property': PID, 'seed': core.h64('C17-corpus', ia, ib),
                        'swarm': {'scrub': False, 'base': 'minimal', 'exec_ref': False, 'hashseed': 1},
                        'ops': [job(a), job(b)]})
    return out


_GROUPS = None


def known_groups():
    """{group name: [path patterns]} from the OPEN findings of this property (known_findings.json)."""
    global _GROUPS
    if _GROUPS is None:
        _GROUPS = {}
        for e in core.load_known():
            if e.get('property') == PID and e.get('status') == 'open' and e.get('group'):
                _GROUPS.setdefault(e['group'], []).extend(e.get('state_paths', []))
    return _GROUPS


_SCRUB = None


def scrub_patterns():
    """Only groups marked scrub=true: values assigned while a document runs (registers).  Import-time
    patches (beamer) cannot be scrubbed: the module is imported once, so putting the attribute back would
    itself change a later document of that class."""
    global _SCRUB
    if _SCRUB is None:
        _SCRUB = sorted(p for e in core.load_known() if e.get('property') == PID and e.get('status') == 'open'
                        and e.get('scrub') for p in e.get('state_paths', []))
    return _SCRUB


def scrubbed_path(path):
    import fnmatch
    return any(fnmatch.fnmatchcase(path, p) for p in scrub_patterns())


def group_of(path):
    import fnmatch
    for g, pats in sorted(known_groups().items()):
        if any(fnmatch.fnmatchcase(path, p) for p in pats):
            return g
    return None


def _materialise(record):
    jobs = []
    clock = lifetimes.T0 + 7200
    for j, op in enumerate([o for o in record['ops'] if o.get('op') == 'JOB'][:5]):
        clock += op.get('dt', 1)
        jobs.append({'name': 'j%d' % j, 'src': job_source(op), 'raw': bool(op.get('raw')), 'renderer': op['renderer'], 'split': op['split'],
                     'theme': op['theme'], 'clock': clock, 'blocks': op['blocks'], 'cut': op.get('cut'),
                     'extra': op.get('extra', []),
                     'local': any(q in LOCAL_PACKAGES for b in op['blocks'] for q in NEEDS.get(b, [])),
                     'copydir': (os.path.join(core.REPO, os.path.dirname(op['corpus'])) if op.get('corpus') and op.get('withdir') else None)})
    return jobs


def _run(jobs, sw, root, mode='fork', hashseed=0, full=False):
    os.makedirs(root, exist_ok=True)
    environ = {'HOME': root, 'TEXINPUTS': root}
    if sw.get('texinputs') == 'unset':
        del environ['TEXINPUTS']                 # (the variable is juggled by TeX.kpsewhich: both of its branches matter)
    elif sw.get('texinputs') == 'empty':
        environ['TEXINPUTS'] = ''
    setup = {'root': root, 'cwd': root, 'clock': jobs[0]['clock'], 'full': full, 'env': {'environ': environ}}
    args = {'jobs': [dict((k, v) for k, v in j.items() if k not in ('blocks',)) for j in jobs], 'full': full,
            'scrub': (scrub_patterns() if sw.get('scrub') and len(jobs) > 1 else None)}
    st, out = lifetimes.run_lifetime(JOB, args, setup, mode=mode, hashseed=hashseed, timeout=900)
    if st != 'ok' or not out.get('ok'):
        raise core.HarnessError('history lifetime failed: %s' % (out and out.get('traceback')))
    return out['result']


def execute(record):
    res = core.empty_result()
    sw = record['swarm']
    jobs = _materialise(record)
    info, viol, log = {}, [], []
    untracked = set()
    if not jobs:
        res['digest'] = res['log_digest'] = core.hexdigest([])
        return res
    full = sw.get('base') == 'full'
    if full:
        info['full_base'] = 1
    root = lifetimes.make_root('c17')
    try:
        hist = _run(jobs, sw, os.path.join(root, 'h'), full=full)
        completed = [h for h in hist if h['ok']]
        if len(completed) < len(jobs):
            info['aborted_histories'] = 1
        for j, h in enumerate(hist):
            log.append([j, h['ok'], core.hexdigest([h['xml'], h['files']]), sorted(h['drift'])])
        # V2: after every completed job
        for j, h in enumerate(completed):
            for path in sorted(h['drift']):
                cat = categorize(path)
                if cat in (None, 'render-leftover'):
                    # not a category the statement names: a probe, never a verdict by itself
                    info['untracked_drift'] = 1
                    res['probes']['untracked:' + (cat or path.rsplit('.', 1)[-1])] = 1
                    untracked.add(path)
                    continue
                viol.append({'sig': 'C17|state|%s|%s' % (cat, path),
                             'detail': {'after_job': j, 'pristine': h['drift'][path][0], 'now': h['drift'][path][1],
                                        'blocks': jobs[j]['blocks'], 'cut': jobs[j]['cut']}})
        # probes
        if any(o.get('corpus') for o in record['ops']):
            info['corpus_pair'] = 1
        if any(o.get('raw') for o in record['ops']):
            info['macro_fuzz'] = 1
        for j, job in enumerate(jobs):
            if job['cut'] is not None and j < len(completed):
                if 'math_open' in job['blocks']:
                    info['eof_cut_inside_math'] = 1
                if 'list_open' in job['blocks']:
                    info['eof_cut_inside_list'] = 1
                for b in job['blocks']:
                    if b.endswith('_open'):
                        info['completed_with_open:' + b] = 1
                if j + 1 < len(completed):
                    info['job_after_truncated_job'] = 1
            if j > 0 and abs(jobs[j]['clock'] - jobs[j - 1]['clock']) > 300 * 86400:
                info['clock_jump_years'] = 1
            if j > 0 and job['src'] == jobs[j - 1]['src']:
                info['same_input_twice'] = 1
        # V1: every job of the history vs the same job alone in a fresh lifetime
        refcache = {}
        for j, h in enumerate(hist):
            job = jobs[j]
            key = core.hexdigest([job['src'], job['renderer'], job['split'], job['theme'], job['clock'], job['extra']])
            if key not in refcache:
                mode = 'exec' if (sw.get('exec_ref') and j == len(hist) - 1) else 'fork'
                if mode == 'exec':
                    info['exec_reference'] = 1
                solo = _run([dict(job, name='j%d' % j)], sw, os.path.join(root, 's%d' % j), mode=mode,
                            hashseed=sw.get('hashseed', 1), full=full)[0]
                refcache[key] = solo
            solo = refcache[key]
            log.append(['solo', j, solo['ok'], core.hexdigest([solo['xml'], solo['files']])])
            if not h['ok'] and not solo['ok']:
                break           # outside the premise in both settings
            info['v1_compared'] = 1
            diff = _first_diff(h, solo)
            if diff is not None:
                drifted = sorted(p for p in (hist[j - 1]['drift'] if j > 0 else {}) if categorize(p) not in (None, 'render-leftover'))
                # import-time patches made by THIS job (e.g. the first beamer document of the interpreter) are part of
                # that finding too: they are ineffective where an earlier document already compiled the arguments
                own = sorted(p for p in h['drift'] if group_of(p) and not scrubbed_path(p) and p not in drifted)
                drifted = sorted(drifted + own)
                scrubbed = bool(sw.get('scrub'))
                if scrubbed:
                    drifted = [p for p in drifted if not scrubbed_path(p)]     # those were put back before this job started
                if not drifted:
                    attribution = 'none' if j > 0 else 'first-job'
                elif all(group_of(p) for p in drifted):
                    attribution = '+'.join(sorted(set(group_of(p) for p in drifted)))
                else:
                    attribution = ','.join([p for p in drifted if group_of(p) is None][:3])
                viol.append({'sig': 'C17|output|%s|%s' % (diff[0], attribution),
                             'detail': {'job': j, 'what': diff[0], 'where': diff[1], 'in_history': diff[2], 'alone': diff[3],
                                        'blocks': job['blocks'], 'earlier_blocks': [x['blocks'] for x in jobs[:j]],
                                        'drift_at_start': drifted[:12]}})
                break
            if not h['ok']:
                break
    finally:
        lifetimes.remove_root(root)
    res['violations'] = viol
    for k in info:
        res['probes'][k] = 1
    res['sim_time'] = float(sum(abs(o.get('dt', 0)) for o in record['ops']))
    res['steps'] = len(jobs)
    writers = set()
    nontrivial = False
    for j, job in enumerate(jobs):
        fams_r = set(BLOCKS[b][0] for b in job['blocks'] if b in BLOCKS and BLOCKS[b][1] == 'R')
        if fams_r & writers:
            nontrivial = True
        writers |= set(BLOCKS[b][0] for b in job['blocks'] if b in BLOCKS and (BLOCKS[b][1] == 'W' or BLOCKS[b][0] == 'envs'))
    res['nontrivial'] = nontrivial
    res['digest'] = core.hexdigest([[j['src'], j['renderer'], j['split'], j['theme'], j['extra']] for j in jobs])
    res['log_digest'] = core.hexdigest(log)
    res['states'] = [core.h64(core.hexdigest(sorted(h['drift']))) for h in hist]
    return res


def _first_diff(a, b):
    if 'TimeoutError' in (a.get('exception'), b.get('exception')):
        return None          # a job that ran out of its time budget did not complete: outside the premise, never a verdict
    if a['ok'] != b['ok']:
        return ('exception', 'job raised in exactly one setting', a.get('exception'), b.get('exception'))
    if a['xml'] != b['xml']:
        return ('xml', _ctx(a['xml'], b['xml'])[0], _ctx(a['xml'], b['xml'])[1], _ctx(a['xml'], b['xml'])[2])
    fa, fb = a['files'], b['files']
    if sorted(fa) != sorted(fb):
        return ('fileset', 'names', sorted(fa), sorted(fb))
    for name in sorted(fa):
        if fa[name] != fb[name]:
            c = _ctx(fa[name], fb[name])
            return ('file', '%s@%s' % (name, c[0]), c[1], c[2])
    return None


def _ctx(x, y):
    x, y = x or '', y or ''
    n = 0
    while n < min(len(x), len(y)) and x[n] == y[n]:
        n += 1
    return n, x[max(0, n - 60):n + 100], y[max(0, n - 60):n + 100]


def simplify(record):
    # fewer blocks / packages per job, no cut, default config
    ops = record['ops']
    for i, op in enumerate(ops):
        if op.get('op') != 'JOB':
            continue
        if op.get('raw'):
            for k in range(len(op['raw'])):
                yield dict(record, ops=ops[:i] + [dict(op, raw=op['raw'][:k] + op['raw'][k + 1:])] + ops[i + 1:])
        for k in range(len(op['blocks'])):
            yield dict(record, ops=ops[:i] + [dict(op, blocks=op['blocks'][:k] + op['blocks'][k + 1:])] + ops[i + 1:])
        for k in range(len(op['packages'])):
            yield dict(record, ops=ops[:i] + [dict(op, packages=op['packages'][:k] + op['packages'][k + 1:])] + ops[i + 1:])
        if op.get('cut') is not None and op['cut'] not in (998, 999):
            yield dict(record, ops=ops[:i] + [dict(op, cut=None)] + ops[i + 1:])
        if op['cls'] != 'article':
            yield dict(record, ops=ops[:i] + [dict(op, cls='article')] + ops[i + 1:])
        if (op['renderer'], op['split'], op['theme'], op['dt']) != ('HTML5', 2, 'default', 1):
            yield dict(record, ops=ops[:i] + [dict(op, renderer='HTML5', split=2, theme='default', dt=1)] + ops[i + 1:])
        for k in range(len(op.get('extra', []))):
            yield dict(record, ops=ops[:i] + [dict(op, extra=op['extra'][:k] + op['extra'][k + 1:])] + ops[i + 1:])
    sw = record['swarm']
    if sw.get('base') != 'minimal' or sw.get('exec_ref'):
        yield dict(record, swarm=dict(sw, base='minimal', exec_ref=False))
