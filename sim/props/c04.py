"""C04 - grouping restores every local change and leaves the context stack balanced.

A balanced history over a small vocabulary (3 macro names, one character whose
catcode changes, one \\newif switch, one counter): OPEN(kind)/CLOSE, DEF_LOCAL,
DEF_GLOBAL, LET, CATCODE, SETIF, STEP, PROBE.  Reference model: a stack of
frames {macros, lets, catcodes}; lookup = innermost frame that has the key;
global definitions, counters and \\newif state live in the bottom frame /
outside the stack; CLOSE pops exactly one frame.  Two transports carry each
history: the Context API (push/pop/newdef/let/catcode/newif/counters) checked
after every op, and the same history compiled to TeX source, parsed by the real
TeX, whose textContent must be the marker string the model predicts and whose
context stack must be back at its initial depth.  No fault space exists.
"""
from .. import core
import os

PID = 'C04'

META = {
    'level': 'exploration',
    'fork_batches': True,       # each batch runs in a forked child of the pool worker (bounded memory)
    'runs': {'quick': 30000, 'thorough': 1500000},
    'batch': {'quick': 200, 'thorough': 2000},
    'wall_cap': {'quick': 900, 'thorough': 3300},
    'rule': ('seeded balanced histories (<=40 ops, nesting <=6) over 8 group kinds; non-trivial iff some definition, alias or '
             'catcode change made at depth>=1 is probed both inside and after its group; distinct = digest of the op list; '
             'distinct_states = distinct model frame-stack digests. Plus a bounded EXHAUSTIVE part on the API transport: every '
             'sequence of 4 (quick) / 6 (thorough) operations over an 11-letter alphabet (open group/env, close, 2 local defs, '
             'global def, let, 2 catcodes, char let, declaration; <=3 frames open), counted under dense_sweep_cases'),
    'components': {'real': ['plasTeX.Context (push/pop/createContext/mapMethods, addLocal/addGlobal, newdef, let/get_let, catcode/whichCode, newif, counters)',
                            'plasTeX.TeX + Base macros (bgroup/egroup, begingroup, Environment, MathShift, tabular cells, argument groups) for the TeX transport'],
                   'stub': ['none: no file, clock or scheduler is touched; the simulator issues the operation history']},
    'assumptions': ['frame-stack reference model (sim/props/c04.py) is trusted',
                    'TeX transport normal form (DESIGN 5.5): catcode changes are \\catcode`\\@=N\\relax; every PROBE is preceded '
                    'by a one-letter marker token; no catcode op inside an argument group; \\gdef writes the bottom frame and '
                    'may be shadowed by a live local definition (lookup yields the innermost live definition)',
                    'no fault space exists for this property (sequential refinement only)'],
    'probe_names': ['dfs_exhaustive', 'catalogue_package_macro', 'box_inside_math', 'declaration_inside_its_environment_form', 'catcode_char_directly_after_group_end', 'locals_sweep', 'unknown_environment_in_math', 'package_loaded_inside_group', 'user_environment', 'fresh_name_global_in_nesting', 'catalogue_scope', 'catalogue_dimen_spelling', 'catalogue_raise', 'declaration_frame', 'change_after_declaration_restored', 'char_let_shadowed', 'local_def_restored', 'global_def_survives', 'let_restored', 'catcode_restored', 'if_survives', 'counter_survives',
                    'nested_depth_ge3', 'env_inside_group', 'group_inside_env', 'math_group', 'cell_scope', 'argument_group',
                    'gdef_shadowed', 'catcode_cow_two_frames'],
    'shrink_budget': 400,
    'enum_batch': {'quick': 8, 'thorough': 1},
}

NAMES = ['na', 'nb', 'nc']
LNAMES = ['la', 'lb']
ALLNAMES = NAMES + LNAMES
PKGS = [('ifthen', 'ifthenelse'), ('cancel', 'cancel'), ('url', 'url'), ('color', 'textcolor'), ('amsbsy', 'boldsymbol')]   # package -> a macro it defines (globally)
FRESH = ['qfa', 'qfb']       # names that are NOT defined at the start: existence tests (\ifdefined, `in`, keys()) follow the stack too
API_KINDS = ['group', 'env']
TEX_KINDS = ['brace', 'begingroup', 'center', 'quote', 'math', 'cell', 'textbf', 'mbox', 'parenmath', 'displaymath',
             'equation', 'itemize', 'minipage', 'footnote', 'dollars', 'figurestar', 'multicolumn', 'qenva', 'qenvb', 'qenvc', 'qunk', 'textcmd', 'fbox', 'parbox', 'makebox']
MATH_KINDS = ('math', 'parenmath', 'displaymath', 'equation', 'dollars')
ARG_KINDS = ('textbf', 'mbox', 'footnote', 'multicolumn', 'mboxm', 'textcmd', 'fbox', 'parbox', 'makebox', 'textcmdm', 'fboxm', 'parboxm', 'makeboxm')
BOX_IN_MATH = {'mbox': 'mboxm', 'textcmd': 'textcmdm', 'fbox': 'fboxm', 'parbox': 'parboxm', 'makebox': 'makeboxm'}   # text mode again inside


def generate(seed, tier):
    R = core.Rngs(seed)
    r = R('ops')
    n = r.choice([3, 5, 8, 12, 20, 30, 40])
    ops = []
    depth = 0
    stack = []
    ident = 1
    weights = {'OPEN': r.choice([1, 2, 3]), 'CLOSE': r.choice([1, 2, 3]), 'DEF_LOCAL': r.choice([0, 2, 3]),
               'DEF_GLOBAL': r.choice([0, 1, 2]), 'LET': r.choice([0, 1, 2]), 'CATCODE': r.choice([0, 1, 2]),
               'SETIF': r.choice([0, 1]), 'STEP': r.choice([0, 1]), 'PROBE': 3, 'CELLSEP': r.choice([0, 1]),
               'LETCHAR': r.choice([0, 1, 2]), 'DECL': r.choice([0, 1, 2]), 'VERB': r.choice([0, 1]), 'ROWSEP': r.choice([0, 1]),
               'SETCOUNTER': r.choice([0, 1]), 'LOADPKG': r.choice([0, 0, 1]), 'TCAT': r.choice([0, 1, 2]), 'TIGHTCLOSE': r.choice([0, 1])}
    kinds = [k for k, w in weights.items() for _ in range(w)]
    while len(ops) < n:
        o = r.choice(kinds)
        if o == 'OPEN':
            if depth >= 6:
                continue
            k = r.choice(TEX_KINDS)
            ops.append({'op': 'OPEN', 'kind': k})
            stack.append(k)
            depth += 1
        elif o == 'CLOSE':
            if depth == 0:
                continue
            ops.append({'op': 'CLOSE'})
            stack.pop()
            depth -= 1
        elif o in ('CELLSEP', 'ROWSEP', 'VERB'):
            ops.append({'op': o})
        elif o == 'TCAT':
            ops.append({'op': 'TCAT', 'code': r.choice([12, 12, 13])})
            if r.random() < 0.4:
                ops.append({'op': 'PROBE', 'what': 'tilde'})
        elif o == 'TIGHTCLOSE':
            if depth == 0:
                continue
            ops.append({'op': 'TIGHTCLOSE'})
            stack.pop()
            depth -= 1
        elif o == 'LOADPKG':
            ops.append({'op': 'LOADPKG', 'pkg': r.randrange(len(PKGS))})
            if r.random() < 0.5:
                ops.append({'op': 'PROBE', 'what': 'pkg'})
        elif o == 'SETCOUNTER':
            ops.append({'op': 'STEP', 'how': r.choice(['set', 'add']), 'n': r.randint(0, 9)})
        elif o in ('DEF_LOCAL', 'DEF_GLOBAL'):
            ops.append({'op': o, 'name': r.choice(NAMES + NAMES + FRESH), 'id': ident, 'form': r.choice(['plain', 'plain', 'e', 'rc'])})
            ident += 1
            if r.random() < 0.2:
                ops.append({'op': 'EMPTY'})
        elif o == 'LET':
            a, b = r.sample(ALLNAMES if r.random() < 0.4 else NAMES, 2)
            if r.random() < 0.15:
                a = r.choice(FRESH)
            ops.append({'op': 'LET', 'dst': a, 'src': b})
        elif o == 'CATCODE':
            ops.append({'op': 'CATCODE', 'code': r.choice([11, 12, 11, 12, 13])})
        elif o == 'LETCHAR':
            ops.append({'op': 'LETCHAR', 'dst': r.choice(LNAMES + LNAMES + NAMES), 'ch': r.choice('uvw')})
        elif o == 'DECL':
            ops.append({'op': 'DECL', 'name': r.choice(['small', 'itshape', 'bfseries', 'large', 'centering'])})
        elif o == 'SETIF':
            ops.append({'op': 'SETIF', 'value': r.random() < 0.5})
        elif o == 'STEP':
            ops.append({'op': 'STEP'})
        else:
            ops.append({'op': 'PROBE', 'what': r.choice(NAMES + LNAMES + ['cat', 'if', 'counter', 'all', 'fresh', 'pkg'])})
        if r.random() < 0.3:
            ops.append({'op': 'PROBE', 'what': r.choice(NAMES + ['cat', 'all'])})
    while depth:
        ops.append({'op': 'CLOSE'})
        depth -= 1
        if r.random() < 0.6:
            ops.append({'op': 'PROBE', 'what': 'all'})
    ops.append({'op': 'PROBE', 'what': 'all'})
    return {'property': PID, 'seed': seed, 'swarm': {'transports': ['api', 'tex']}, 'ops': ops}


def balance(ops):
    """Any sub-list of a balanced history is made balanced again: a CLOSE with
    nothing open is dropped, opens left at the end are closed (closed under
    deletion)."""
    out, depth = [], 0
    for op in ops:
        if op['op'] == 'OPEN':
            depth += 1
        elif op['op'] in ('CLOSE', 'TIGHTCLOSE'):
            if depth == 0:
                continue
            depth -= 1
        out.append(op)
    out += [{'op': 'CLOSE'}] * depth
    return out


# --------------------------------------------------------------------------
# reference model

class Model(object):
    def __init__(self):
        self.frames = [{'macros': dict((n, '%s0' % n) for n in ALLNAMES), 'lets': {}, 'cats': {'@': 12}, 'kind': None}]
        self.ifstate = False
        self.counter = 0
        self.info = {}
        self.events = []       # (frame depth at which a local change was made, kind) for non-triviality

    def lookup(self, name):
        for f in reversed(self.frames):
            if name in f['macros']:
                return f['macros'][name]
        return None

    def cat(self):
        for f in reversed(self.frames):
            if '@' in f['cats']:
                return f['cats']['@']
        return 12

    def cat2(self):
        for f in reversed(self.frames):
            if '~' in f['cats']:
                return f['cats']['~']
        return 13

    def open(self, kind):
        self.frames.append({'macros': {}, 'lets': {}, 'cats': {}, 'kind': kind})
        if len(self.frames) >= 4:
            self.info['nested_depth_ge3'] = 1
        kinds = [f['kind'] for f in self.frames[1:]]
        envs = ('center', 'quote', 'env', 'itemize', 'minipage', 'equation', 'qenva', 'qenvb', 'qenvc', 'qunk')
        if kind in ('qenva', 'qenvb', 'qenvc'):
            self.info['user_environment'] = 1
        for a, b in zip(kinds, kinds[1:]):
            if a in ('brace', 'begingroup', 'group') and b in envs:
                self.info['env_inside_group'] = 1
            if a in envs and b in ('brace', 'begingroup', 'group'):
                self.info['group_inside_env'] = 1
        if kind == 'math':
            self.info['math_group'] = 1
        if kind == 'cell':
            self.info['cell_scope'] = 1
        if kind in ARG_KINDS:
            self.info['argument_group'] = 1

    def decl(self, name):
        self.frames.append({'macros': {}, 'lets': {}, 'cats': {}, 'kind': 'decl'})
        self.info['declaration_frame'] = 1

    def close(self):
        merged = {'macros': {}, 'cats': {}}
        while self.frames[-1]['kind'] == 'decl':
            d = self.frames.pop()           # a declaration's frame ends with the group that encloses it
            for key in ('macros', 'cats'):
                merged[key].update(d[key])
            for key in ('let', 'gdef', 'setif', 'step'):
                if d.get(key):
                    merged[key] = 1
            if d['macros'] or d['cats'] or d.get('let'):
                self.info['change_after_declaration_restored'] = 1
        f = self.frames.pop()
        for key in ('macros', 'cats'):
            f[key] = dict(f[key], **merged[key])
        for key in ('let', 'gdef', 'setif', 'step'):
            if merged.get(key):
                f[key] = 1
        if f['macros']:
            self.info['local_def_restored'] = 1
        if f['cats']:
            self.info['catcode_restored'] = 1
        if f.get('let'):
            self.info['let_restored'] = 1
        if f.get('gdef'):
            self.info['global_def_survives'] = 1
        if f.get('setif'):
            self.info['if_survives'] = 1
        if f.get('step'):
            self.info['counter_survives'] = 1
        return f

    def def_local(self, name, ident):
        self.frames[-1]['macros'][name] = '%s%d' % (name, ident)

    def def_global(self, name, ident):
        if name in FRESH and self.lookup(name) is None and len(self.frames) >= 3:
            self.info['fresh_name_global_in_nesting'] = 1
        self.frames[0]['macros'][name] = '%s%d' % (name, ident)
        self.frames[-1]['gdef'] = 1
        if any(name in f['macros'] for f in self.frames[1:]):
            self.info['gdef_shadowed'] = 1

    def let(self, dst, src):
        self.frames[-1]['macros'][dst] = self.lookup(src)
        self.frames[-1]['let'] = 1

    def letchar(self, dst, ch):
        if any(dst in f['lets'] for f in self.frames[:-1]):
            self.info['char_let_shadowed'] = 1
        self.frames[-1]['lets'][dst] = ch
        self.frames[-1]['let'] = 1

    def get_let(self, name):
        for f in reversed(self.frames):
            if name in f['lets']:
                return f['lets'][name]
        return None

    def catcode(self, code):
        if len(self.frames) >= 3 and '@' in self.frames[-2]['cats'] and '@' not in self.frames[-1]['cats']:
            self.info['catcode_cow_two_frames'] = 1
        self.frames[-1]['cats']['@'] = code

    def digest(self):
        return core.h64(core.hexdigest([[sorted(f['macros'].items()), sorted(f['cats'].items())] for f in self.frames]),
                        self.ifstate, self.counter)


# --------------------------------------------------------------------------
# transport 1: the Context API, checked after every op

class ApiViolation(Exception):
    def __init__(self, sig, detail):
        Exception.__init__(self, sig)
        self.sig, self.detail = sig, detail


def run_api(ops):
    from plasTeX import TeXDocument
    from plasTeX.Tokenizer import EscapeSequence, Token
    doc = TeXDocument()
    ctx = doc.context
    m = Model()
    for n in ALLNAMES:
        ctx.newdef(n, '', '%s0' % n, local=False)
    ctx.newif('ifsw')
    ctx.newcounter('cx')
    ctx.catcode('@', 12)
    base_depth = len(ctx.contexts)
    objs = []
    states = []
    for k, op in enumerate(ops):
        o = op['op']
        if o == 'OPEN':
            if op['kind'] in ('center', 'quote', 'textbf', 'mbox'):
                obj = doc.createElement(op['kind'])
                ctx.push(obj)
                objs.append(obj)
            else:
                ctx.push()
                objs.append(None)
            m.open(op['kind'])
        elif o == 'DECL':
            ctx.push(doc.createElement(op['name']))
            m.decl(op['name'])
        elif o == 'CLOSE':
            obj = objs.pop()
            ctx.pop(obj)
            m.close()
        elif o == 'DEF_LOCAL':
            ctx.newdef(op['name'], '', '%s%d' % (op['name'], op['id']), local=True)
            m.def_local(op['name'], op['id'])
        elif o == 'DEF_GLOBAL':
            ctx.newdef(op['name'], '', '%s%d' % (op['name'], op['id']), local=False)
            m.def_global(op['name'], op['id'])
        elif o == 'LET':
            ctx.let(EscapeSequence(op['dst']), EscapeSequence(op['src']))
            m.let(op['dst'], op['src'])
        elif o == 'CATCODE':
            ctx.catcode('@', op['code'])
            m.catcode(op['code'])
        elif o == 'TCAT':
            ctx.catcode('~', op['code'])
            m.frames[-1]['cats']['~'] = op['code']
        elif o == 'LETCHAR':
            from plasTeX.Tokenizer import Other
            ctx.let(EscapeSequence(op['dst']), Other(op['ch']))
            m.letchar(op['dst'], op['ch'])
        elif o == 'SETIF':
            inst = ctx['swtrue' if op['value'] else 'swfalse']()
            inst.ownerDocument = doc
            inst.invoke(None)
            m.ifstate = op['value']
            m.frames[-1]['setif'] = 1
        elif o == 'STEP':
            if op.get('how') == 'set':
                ctx.counters['cx'].setcounter(op['n'])
                m.counter = op['n']
            else:
                ctx.counters['cx'].addtocounter(op.get('n', 1) if op.get('how') == 'add' else 1)
                m.counter += op.get('n', 1) if op.get('how') == 'add' else 1
            m.frames[-1]['step'] = 1
        # invariants after every op
        if len(ctx.contexts) - base_depth != len(m.frames) - 1:
            raise ApiViolation('C04|api|depth', {'step': k, 'op': op, 'real': len(ctx.contexts) - base_depth, 'model': len(m.frames) - 1})
        for n in ALLNAMES:
            cls = ctx[n]
            got = ''.join(str(t) for t in (getattr(cls, 'definition', None) or []))
            if got != m.lookup(n):
                cls_ = 'local-leaked' if o == 'CLOSE' else ('lookup' if o in ('PROBE', 'OPEN') else o.lower())
                raise ApiViolation('C04|api|macro|%s' % cls_, {'step': k, 'op': op, 'name': n, 'real': got, 'model': m.lookup(n),
                                                               'frames': [sorted(f['macros'].items()) for f in m.frames]})
        for n in FRESH:
            exp = m.lookup(n)
            seen = [bool(n in ctx), n in list(ctx.keys()), bool(ctx.has_key(n)), bool(n in ctx.top)]
            if seen != [exp is not None] * 4:
                raise ApiViolation('C04|api|defined|%s' % ('restored' if o == 'CLOSE' else o.lower()),
                                   {'step': k, 'op': op, 'name': n, 'real [in, keys(), has_key, in top]': seen, 'model': exp})
            if exp is not None:
                got = ''.join(str(t) for t in (getattr(ctx[n], 'definition', None) or []))
                if got != exp:
                    raise ApiViolation('C04|api|macro|%s' % ('local-leaked' if o == 'CLOSE' else o.lower()),
                                       {'step': k, 'op': op, 'name': n, 'real': got, 'model': exp})
        for n in ALLNAMES:
            tok = EscapeSequence(n)
            got = ctx.get_let(tok)
            exp = m.get_let(n)
            if (exp is None and got is not tok) or (exp is not None and (got is tok or str(got) != exp)):
                raise ApiViolation('C04|api|get_let|%s' % ('restored' if o == 'CLOSE' else 'lookup'),
                                   {'step': k, 'op': op, 'name': n, 'real': None if got is tok else str(got), 'model': exp})
        if ctx.whichCode('@') != m.cat():
            raise ApiViolation('C04|api|catcode|%s' % ('restored' if o == 'CLOSE' else o.lower()),
                               {'step': k, 'op': op, 'real': ctx.whichCode('@'), 'model': m.cat()})
        if ctx.whichCode('~') != m.cat2():
            raise ApiViolation('C04|api|catcode|%s' % ('restored' if o == 'CLOSE' else o.lower()),
                               {'step': k, 'op': op, 'char': '~', 'real': ctx.whichCode('~'), 'model': m.cat2()})
        if 'zzunseen' in ctx:
            raise ApiViolation('C04|api|phantom-name', {'step': k})
        if bool(ctx['ifsw'].state) != m.ifstate:
            raise ApiViolation('C04|api|newif', {'step': k, 'op': op, 'real': ctx['ifsw'].state, 'model': m.ifstate})
        if int(ctx.counters['cx'].value) != m.counter:
            raise ApiViolation('C04|api|counter', {'step': k, 'op': op, 'real': int(ctx.counters['cx'].value), 'model': m.counter})
        states.append(m.digest())
    if len(ctx.contexts) - base_depth != len(m.frames) - 1 or any(f['kind'] != 'decl' for f in m.frames[1:]):
        raise ApiViolation('C04|api|final-depth', {'real': len(ctx.contexts), 'initial': base_depth})
    return m, states


# --------------------------------------------------------------------------
# transport 2: TeX source

OPEN_TEX = {'brace': '{', 'begingroup': '\\begingroup ', 'center': '\\begin{center}', 'quote': '\\begin{quote}', 'math': '$ ',
            'cell': '\\begin{tabular}{ll}', 'textbf': '\\textbf{', 'mbox': '\\mbox{', 'parenmath': '\\( ', 'displaymath': '\\[ ',
            'equation': '\\begin{equation}', 'itemize': '\\begin{itemize}\\item ', 'minipage': '\\begin{minipage}{3cm}',
            'footnote': '\\footnote{', 'dollars': '$$ ', 'figurestar': '\\begin{figure*}',
            'multicolumn': '\\begin{tabular}{ll}\\multicolumn{2}{c}{', 'mboxm': '\\mbox{',
            'textcmd': '\\text{', 'fbox': '\\fbox{', 'parbox': '\\parbox{3cm}{', 'makebox': '\\makebox[2cm]{',
            'textcmdm': '\\text{', 'fboxm': '\\fbox{', 'parboxm': '\\parbox{3cm}{', 'makeboxm': '\\makebox[2cm]{',
            'qenva': '\\begin{qenva}', 'qenvb': '\\begin{qenvb}', 'qenvc': '\\begin{qenvc}{}',
            'qunk': '\\begin{qunk}'}            # an environment nobody defined (also used inside math: pmatrix without amsmath)
CLOSE_TEX = {'brace': '}', 'begingroup': '\\endgroup ', 'center': '\\end{center}', 'quote': '\\end{quote}', 'math': '$',
             'cell': '\\end{tabular}', 'textbf': '}', 'mbox': '}', 'parenmath': '\\)', 'displaymath': '\\]',
             'equation': '\\end{equation}', 'itemize': '\\end{itemize}', 'minipage': '\\end{minipage}', 'footnote': '}',
             'dollars': '$$', 'figurestar': '\\end{figure*}', 'multicolumn': '}\\end{tabular}', 'mboxm': '}',
             'textcmd': '}', 'fbox': '}', 'parbox': '}', 'makebox': '}', 'textcmdm': '}', 'fboxm': '}', 'parboxm': '}', 'makeboxm': '}',
             'qenva': '\\end{qenva}', 'qenvb': '\\end{qenvb}', 'qenvc': '\\end{qenvc}', 'qunk': '\\end{qunk}'}
PREAMBLE = ('\\documentclass{article}\\newcounter{cx}\\newif\\ifsw\\makeatletter\\def\\pr@be{L}\\makeatother\\def\\pr{O}'
            + ''.join('\\def\\%s{%s0}' % (n, n) for n in ALLNAMES)
            # user-defined environments: plain, with its end part redefined by \def, with an argument
            + '\\newenvironment{qenva}{\\relax}{\\relax}\\newenvironment{qenvb}{\\relax}{\\relax}\\def\\endqenvb{\\relax}'
            + '\\newenvironment{qenvc}[1]{\\relax}{\\relax #1}'
            + '\\begin{document}')


def compile_tex(ops, global_prefix=False):
    """-> (source, expected text).  Every PROBE is preceded by the marker token 'x'.
    global_prefix: spell global definitions with TeX's \\global prefix (\\global\\def, \\global\\let) instead of \\gdef."""
    m = Model()
    m.frames.append({'macros': {}, 'lets': {}, 'cats': {}, 'kind': 'document'})
    src, exp = [], []
    stack = []
    in_arg = 0
    in_math = 0
    math_saved = []
    loaded = set()

    def probe(what):
        if what in NAMES:
            src.append('x\\%s ' % what)
            exp.append('x' + m.lookup(what))
        elif what == 'cat':
            if in_arg:
                return       # tokens of an argument were categorised when it was scanned
            src.append('x\\pr@be ')
            c = m.cat()
            exp.append('xL' if c == 11 else ('xO@be' if c == 12 else None))
            if c == 13:
                src.pop()
                exp.pop()
        elif what in LNAMES:
            src.append('x\\%s ' % what)
            exp.append('x' + (m.get_let(what) or m.lookup(what)))
        elif what == 'tilde':
            if in_arg or in_math:
                return
            src.append('x~y ')
            exp.append('x~y' if m.cat2() == 12 else 'xy')        # (an active ~ is a no-break space: white space to the comparison)
        elif what == 'pkg':
            for k, (pk, mac) in enumerate(PKGS):
                src.append('x\\ifdefined\\%s P\\else Q\\fi ' % mac)
                exp.append('xP' if k in loaded else 'xQ')
        elif what == 'fresh':
            for n in FRESH:
                src.append('x\\ifdefined\\%s \\%s\\else U\\fi ' % (n, n))
                exp.append('x' + (m.lookup(n) or 'U'))
        elif what == 'if':
            src.append('x\\ifsw T\\else F\\fi ')
            exp.append('xT' if m.ifstate else 'xF')
        elif what == 'counter':
            src.append('x\\arabic{cx} ')
            exp.append('x%d' % m.counter)
        else:
            for w in NAMES + LNAMES + ['cat', 'if', 'counter', 'fresh', 'pkg', 'tilde']:
                probe(w)

    for op in ops:
        o = op['op']
        if o == 'OPEN':
            k = op['kind']
            if in_math and k == 'qunk':
                m.info['unknown_environment_in_math'] = 1
            if in_math and k not in ('begingroup', 'qunk') and k not in BOX_IN_MATH:
                k = 'brace'
            if in_math and k in BOX_IN_MATH:
                math_saved.append(in_math)      # text mode again inside the box: a $ in there starts a NEW formula
                in_math = 0
                k = BOX_IN_MATH[k]
                m.info['box_inside_math'] = 1
            stack.append(k)
            src.append(OPEN_TEX[k])
            m.open(k)
            if k in ARG_KINDS:
                in_arg += 1
            if k in MATH_KINDS:
                in_math += 1
        elif o == 'CLOSE':
            if not stack:
                continue
            k = stack.pop()
            src.append(CLOSE_TEX[k])
            m.close()
            if k in ARG_KINDS:
                in_arg -= 1
            if k in MATH_KINDS:
                in_math -= 1
            if k in BOX_IN_MATH.values():
                in_math = math_saved.pop()
        elif o == 'CELLSEP':
            if stack and stack[-1] == 'cell':
                src.append(' & ')
                m.close()
                m.open('cell')
        elif o == 'EMPTY':
            if not in_math:
                src.append('{}')
        elif o == 'LOADPKG':
            # a package loaded anywhere (inside a group, an argument, a cell, math) defines its macros globally
            k = op['pkg'] % len(PKGS)
            src.append('\\usepackage{%s}' % PKGS[k][0])
            loaded.add(k)
            if len(m.frames) > 2:
                m.info['package_loaded_inside_group'] = 1
        elif o == 'DEF_LOCAL':
            src.append(('\\edef\\%s{%s%d}' if op.get('form') == 'e' else '\\def\\%s{%s%d}') % (op['name'], op['name'], op['id']))
            m.def_local(op['name'], op['id'])
        elif o == 'DEF_GLOBAL':
            # (form 'rc': plasTeX's \newcommand family inserts globally - Context.newcommand uses addGlobal)
            src.append(('\\global\\def\\%s{%s%d}' if global_prefix else ('\\xdef\\%s{%s%d}' if op.get('form') == 'e' else
                        ('\\renewcommand{\\%s}{%s%d}' if op.get('form') == 'rc' else '\\gdef\\%s{%s%d}')))
                       % (op['name'], op['name'], op['id']))
            m.def_global(op['name'], op['id'])
        elif o == 'LET':
            if op['dst'] in LNAMES or op['src'] in LNAMES:
                continue        # source-level \let of a name that may be a character alias: the tokenizer substitutes first
            if op.get('global') and global_prefix:
                src.append('\\global\\let\\%s=\\%s ' % (op['dst'], op['src']))
                m.frames[0]['macros'][op['dst']] = m.lookup(op['src'])
                m.frames[-1]['gdef'] = 1
                continue
            src.append('\\let\\%s=\\%s ' % (op['dst'], op['src']))
            m.let(op['dst'], op['src'])
        elif o == 'LETCHAR':
            if op['dst'] not in LNAMES or in_math or in_arg or m.get_let(op['dst']) is not None:
                continue        # (a name that already is a character alias is substituted by the tokenizer before \let sees it)
            src.append('\\let\\%s=%s ' % (op['dst'], op['ch']))
            m.letchar(op['dst'], op['ch'])
        elif o == 'VERB':
            if in_arg or in_math:
                continue
            src.append('\\verb|v@| ')
            exp.append('v@')
        elif o == 'ROWSEP':
            if stack and stack[-1] == 'cell':
                src.append(' \\\\ ')
                m.close()
                m.open('cell')
        elif o == 'DECL':
            if in_math or not stack:
                continue        # text declarations only, and only inside some group (a top-level one lasts to the end)
            src.append('\\%s ' % op['name'])
            m.decl(op['name'])
        elif o == 'CATCODE':
            if in_arg or op['code'] == 13:
                continue
            src.append('\\catcode`\\@=%d\\relax ' % op['code'])
            m.catcode(op['code'])
        elif o == 'TCAT':
            if in_arg or in_math:
                continue
            src.append('\\catcode`\\~=%d\\relax ' % op['code'])
            m.frames[-1]['cats']['~'] = op['code']
        elif o == 'TIGHTCLOSE':
            # \endgroup DIRECTLY followed by the character whose category the group changed: the character is
            # categorised when it is read as the next token, i.e. after the group has closed
            if not stack:
                continue
            k = stack.pop()
            if k == 'begingroup' and not in_arg and not in_math:
                m.close()
                src.append('\\endgroup~q ')
                exp.append('~q' if m.cat2() == 12 else 'q')
                m.info['catcode_char_directly_after_group_end'] = 1
            else:
                src.append(CLOSE_TEX[k])
                m.close()
                if k in ARG_KINDS:
                    in_arg -= 1
                if k in MATH_KINDS:
                    in_math -= 1
                if k in BOX_IN_MATH.values():
                    in_math = math_saved.pop()
        elif o == 'SETIF':
            src.append('\\swtrue ' if op['value'] else '\\swfalse ')
            m.ifstate = op['value']
            m.frames[-1]['setif'] = 1
        elif o == 'STEP':
            if op.get('how') == 'set':
                src.append('\\setcounter{cx}{%d}' % op['n'])
                m.counter = op['n']
            elif op.get('how') == 'add':
                src.append('\\addtocounter{cx}{%d}' % op['n'])
                m.counter += op['n']
            else:
                src.append('\\stepcounter{cx}')
                m.counter += 1
            m.frames[-1]['step'] = 1
        elif o == 'PROBE':
            probe(op['what'])
    while stack:
        k = stack.pop()
        src.append(CLOSE_TEX[k])
        m.close()
        if k in ARG_KINDS:
            in_arg -= 1
        if k in MATH_KINDS:
            in_math -= 1
        if k in BOX_IN_MATH.values():
            in_math = math_saved.pop()
    probe('all')
    return PREAMBLE + ''.join(src) + '\\end{document}', ''.join(e for e in exp if e), m


def run_tex(ops, global_prefix=False):
    from plasTeX.TeX import TeX
    source, expected, m = compile_tex(ops, global_prefix)
    tex = TeX()
    tex.input(source)
    doc = tex.parse()
    got = ''.join(str(doc.textContent).split())
    depth = len(doc.context.contexts)
    return source, expected, got, depth, m


CATALOGUE = []


def prepare():
    from plasTeX.Logging import disableLogging
    disableLogging()
    global CATALOGUE
    if not CATALOGUE:
        from .. import macrofuzz
        from . import c17
        CATALOGUE = macrofuzz.build(c17.PACKAGES)        # Base.LaTeX and every package that loads offline


# --------------------------------------------------------------------------
# catalogue sweep: "macro argument" / "environment" for EVERY user-level macro of plasTeX.Base.LaTeX that takes a
# braced argument or has a body (sim/macrofuzz.py synthesises the invocation from the class's `args` template):
# a local definition, a local alias and a category-code change written inside it are gone afterwards, the text after
# it is still there and the stack is back at its depth.  Dimension arguments are also spelled without a unit / empty /
# with blanks (LaTeX: "illegal unit of measure", processing goes on).

CAT_INNER = r'\def\na{IN}\let\nb=\nc \catcode`\@=11\relax '
CAT_TAIL = r' [x\na x\nb x\pr@be x~y x$z$ x% comment' + '\n' + r'w]END'      # (~, $ and % must have their usual categories again)
CAT_EXPECT = '[xna0xnb0xO@bexyxzxw]END'
DIMEN_SPELLINGS = ['{2pt}', '{2}', '{}', '{ 2pt }', '{2 pt}', r'{.5\textwidth}', '{-1}']


def catalogue_ops():
    import re
    from .. import macrofuzz
    out = []
    for k, ent in enumerate(CATALOGUE):
        name, text, args, is_env = ent[:4]
        if name in ('Verbatim', 'BVerbatim', 'LVerbatim', 'lstlisting', 'comment', 'externaldocument', 'externalcitedocument'):
            continue          # verbatim-like bodies and file-name arguments: the inserted definitions are not executed there
        pkg = ent[4] if len(ent) > 4 else None
        has_dimen = bool(re.search(r':\s*(dimen|length|dimension|glue|skip)', args or '', re.I))
        for sp in (DIMEN_SPELLINGS if has_dimen else ['{2pt}']):
            t = macrofuzz.synth(name, args, is_env, k, dimen=sp)
            if t is None:
                continue
            m = re.search(r'\{w\d+\}| body\d+ ', t)
            if m is None:
                if sp == '{2pt}':
                    continue                 # nothing to put a definition in, and the default spelling: nothing to check
                t2 = t
            elif m.group(0).startswith('{'):
                t2 = t[:m.start()] + '{' + CAT_INNER + 'w}' + t[m.end():]
            else:
                t2 = t[:m.start()] + ' ' + CAT_INNER + ' body ' + t[m.end():]
            out.append({'op': 'CAT', 'name': name, 'text': t2, 'dimen': sp, 'pkg': pkg})
    return out


def run_cat(op):
    from plasTeX.TeX import TeX
    pre = PREAMBLE
    if op.get('pkg'):
        pre = pre.replace(r'\begin{document}', r'\usepackage{%s}\begin{document}' % op['pkg'])
    source = pre + 'A ' + op['text'] + CAT_TAIL + r'\end{document}'
    tex = TeX()
    tex.input(source)
    doc = tex.parse()
    got = ''.join(str(doc.textContent).split())
    return source, got, len(doc.context.contexts)


# --------------------------------------------------------------------------
# bounded exhaustive part on the context API ("exhaustively up to a bound, randomly beyond")

DFS_ALPHABET = [{'op': 'OPEN', 'kind': 'brace'}, {'op': 'OPEN', 'kind': 'center'}, {'op': 'CLOSE'},
                {'op': 'DEF_LOCAL', 'name': 'na'}, {'op': 'DEF_LOCAL', 'name': 'nb'}, {'op': 'DEF_GLOBAL', 'name': 'na'},
                {'op': 'DEF_GLOBAL', 'name': 'qfa'},
                {'op': 'LET', 'dst': 'na', 'src': 'nb'}, {'op': 'CATCODE', 'code': 11}, {'op': 'CATCODE', 'code': 12},
                {'op': 'LETCHAR', 'dst': 'la', 'ch': 'u'}, {'op': 'DECL', 'name': 'small'}]


def dfs_sequences(prefix, depth, maxopen=3):
    """Every sequence of `depth` further ops (no CLOSE with nothing open, at most `maxopen` frames open)."""
    def opened(seq):
        d = 0
        for o in seq:
            d += 1 if o['op'] == 'OPEN' else (-1 if o['op'] == 'CLOSE' else 0)
        return d

    def rec(seq, left):
        if left == 0:
            yield seq
            return
        d = opened(seq)
        for a in DFS_ALPHABET:
            if a['op'] == 'CLOSE' and d == 0:
                continue
            if a['op'] == 'OPEN' and d >= maxopen:
                continue
            for x in rec(seq + [a], left - 1):
                yield x
    return rec(list(prefix), depth)


def run_dfs(prefix, depth, res):
    n = 0
    states = set()
    for seq in dfs_sequences(prefix, depth):
        ops = []
        for k, o in enumerate(seq):
            ops.append(dict(o, id=k + 1) if o['op'] in ('DEF_LOCAL', 'DEF_GLOBAL') else o)
        ops = balance(ops)
        api_ops = [dict(o, kind={'center': 'center'}.get(o.get('kind'), 'group')) if o['op'] == 'OPEN' else o for o in ops]
        n += 1
        try:
            m, st = run_api(api_ops)
            states.update(st)
        except ApiViolation as v:
            res['sub_evaluations'] = res.get('sub_evaluations', 0) + n
            return {'sig': v.sig, 'detail': dict(v.detail, sequence=ops)}
    res['sub_evaluations'] = res.get('sub_evaluations', 0) + n
    res['sub_distinct'] = res.get('sub_distinct', 0) + n
    res['states'] = list(set(res['states']) | states)
    return None


def enumerate_cases(base_seed, tier):
    depth = 4 if tier == 'quick' else 6
    out = []
    # TeX's \global prefix (the seeded histories spell global definitions \gdef): one small history per group kind
    for j, kind in enumerate(['brace', 'begingroup', 'center', 'math', 'cell', 'mbox']):
        for what in ('def', 'let'):
            body = [{'op': 'DEF_GLOBAL', 'name': 'na', 'id': 7}] if what == 'def' else [{'op': 'LET', 'dst': 'na', 'src': 'nb', 'global': True}]
            out.append({'property': PID, 'seed': core.h64('C04-global', j, what), 'swarm': {'transports': ['tex'], 'global_prefix': True},
                        'ops': [{'op': 'OPEN', 'kind': kind}] + body + [{'op': 'PROBE', 'what': 'na'}, {'op': 'CLOSE'}, {'op': 'PROBE', 'what': 'na'}]})
    for d in DECL_ENV_NAMES:
        for same in (True, False):
            out.append({'property': PID, 'seed': core.h64('C04-declenv', d, same), 'swarm': {'transports': ['tex'], 'declenv': True},
                        'ops': [{'op': 'DECLENV', 'name': d, 'same': same}]})
    for order in LOCALS_ORDERS:
        out.append({'property': PID, 'seed': core.h64('C04-locals', order), 'swarm': {'transports': ['api'], 'locals': True},
                    'ops': [{'op': 'LOCALS', 'order': order}]})
    cat = catalogue_ops()
    for j in range(0, len(cat), 12):
        out.append({'property': PID, 'seed': core.h64('C04-cat', j), 'swarm': {'transports': ['tex'], 'catalogue': True}, 'ops': cat[j:j + 12]})
    k = 0
    for a in DFS_ALPHABET:
        if a['op'] == 'CLOSE':
            continue
        for b in DFS_ALPHABET:
            if b['op'] == 'CLOSE' and a['op'] != 'OPEN':
                continue
            out.append({'property': PID, 'seed': core.h64('C04-dfs', k), 'swarm': {'transports': ['api']},
                        'ops': [a, b, {'op': 'DFS', 'depth': depth - 2}]})
            k += 1
    return out


def execute(record):
    res = core.empty_result()
    dfs = [o for o in record['ops'] if o.get('op') == 'DFS']
    if dfs:
        prefix = [o for o in record['ops'] if o.get('op') != 'DFS']
        v = run_dfs(prefix, dfs[0].get('depth', 1), res)
        res['violations'] = [v] if v else []
        res['probes'] = {'dfs_exhaustive': 1}
        res['nontrivial'] = True
        res['digest'] = res['log_digest'] = core.hexdigest(record['ops'])
        return res
    if record['swarm'].get('catalogue'):
        return execute_catalogue(record, res)
    if record['swarm'].get('locals'):
        return execute_locals(record, res)
    if record['swarm'].get('declenv'):
        return execute_declenv(record, res)
    ops = balance([o for o in record['ops'] if 'op' in o])
    info, viol, log = {}, [], []
    states = []
    for tr in record['swarm'].get('transports', ['api', 'tex']):
        try:
            if tr == 'api':
                api_ops = [dict(o, kind={'center': 'center', 'quote': 'quote', 'textbf': 'textbf', 'mbox': 'mbox'}.get(o.get('kind'), 'group'))
                           if o['op'] == 'OPEN' else (dict(o, op='CLOSE') if o['op'] == 'TIGHTCLOSE' else o)
                           for o in ops if o['op'] not in ('CELLSEP', 'ROWSEP', 'VERB', 'EMPTY', 'LOADPKG')]
                m, st = run_api(api_ops)
                states.extend(st)
                info.update(m.info)
                log.append(['api', len(st)])
            else:
                gp = bool(record['swarm'].get('global_prefix'))
                source, expected, got, depth, m = run_tex(ops, gp)
                info.update(m.info)
                log.append(['tex', got, depth])
                if got != expected and gp:
                    what = 'let' if any(o.get('global') for o in ops) else 'def'
                    viol.append({'sig': 'C04|tex|global-prefix|%s' % what,
                                 'detail': {'source': source[len(PREAMBLE):][:600], 'expected': expected[:200], 'got': got[:200]}})
                    break
                if got != expected:
                    # first differing probe
                    n = 0
                    while n < min(len(got), len(expected)) and got[n] == expected[n]:
                        n += 1
                    viol.append({'sig': 'C04|tex|text|%s' % _classify(expected, got, n),
                                 'detail': {'source': source[len(PREAMBLE):][:1500], 'expected': expected[:400], 'got': got[:400], 'at': n}})
                    break
                if depth != 1:
                    viol.append({'sig': 'C04|tex|final-depth', 'detail': {'depth': depth, 'source': source[len(PREAMBLE):][:1500]}})
                    break
        except ApiViolation as v:
            viol.append({'sig': v.sig, 'detail': v.detail})
            break
        except Exception as e:
            import traceback
            tb = traceback.format_exc()
            last = [ln for ln in tb.splitlines() if ln.strip().startswith('File "')][-1]
            if '/sim/' in last:
                raise
            viol.append({'sig': 'C04|raise|%s|%s' % (tr, type(e).__name__), 'detail': {'traceback': tb[-1500:]}})
            break
    res['violations'] = viol
    res['probes'] = dict((k, 1) for k in info)
    res['steps'] = len(ops)
    res['nontrivial'] = any(k in info for k in ('local_def_restored', 'catcode_restored', 'let_restored'))
    res['digest'] = core.hexdigest(ops)
    res['log_digest'] = core.hexdigest(log)
    res['states'] = list(set(states))
    return res


# --------------------------------------------------------------------------
# local macros of a frame: the frame pushed for an object holds the macro classes nested in the object's class and its
# bases, the most derived definition winning ("name lookup always yields the innermost live definition") - for EVERY
# macro class of plasTeX that nests macro classes, whatever classes were used before it in the same interpreter

LOCALS_ORDERS = ['bases-first', 'derived-first', 'alphabetical', 'reverse-alphabetical']


def _locals_child(order):
    import plasTeX
    from plasTeX import TeXDocument, Macro
    from .. import lifetimes
    lifetimes.preimport_all()
    import sys
    classes = {}
    for modname in sorted(sys.modules):
        if not modname.startswith('plasTeX'):
            continue
        mod = sys.modules[modname]
        for name, obj in sorted(vars(mod).items(), key=lambda kv: kv[0]):
            if isinstance(obj, type) and issubclass(obj, Macro) and obj.__module__ == modname:
                classes['%s:%s' % (modname, obj.__qualname__)] = obj
                for n2, o2 in sorted(vars(obj).items(), key=lambda kv: kv[0]):
                    if isinstance(o2, type) and issubclass(o2, Macro) and any(isinstance(v, type) and issubclass(v, Macro) for v in vars(o2).values()):
                        classes['%s:%s' % (modname, o2.__qualname__)] = o2

    def expected(cls):
        loc = {}
        for c in reversed(cls.__mro__):
            for v in list(vars(c).values()):
                if isinstance(v, type) and issubclass(v, Macro):
                    loc[getattr(v, 'macroName', None) or v.__name__] = v
        return loc
    todo = [(k, c) for k, c in classes.items() if expected(c)]
    if order == 'bases-first':
        todo.sort(key=lambda kc: (len(kc[1].__mro__), kc[0]))
    elif order == 'derived-first':
        todo.sort(key=lambda kc: (-len(kc[1].__mro__), kc[0]))
    elif order == 'reverse-alphabetical':
        todo.sort(key=lambda kc: kc[0], reverse=True)
    else:
        todo.sort(key=lambda kc: kc[0])
    doc = TeXDocument()
    ctx = doc.context
    n = 0
    for key, cls in todo:
        try:
            obj = cls()
            obj.ownerDocument = doc
        except Exception:
            continue
        exp = expected(cls)
        depth = len(ctx.contexts)
        ctx.push(obj)
        try:
            for name, want in sorted(exp.items()):
                got = ctx[name]
                if got is not want:
                    return {'sig': 'C04|api|locals|%s' % ('inherited-cache' if any(got is v for c in cls.__mro__[1:] for v in vars(c).values()) else 'other'),
                            'detail': {'class': key, 'name': name, 'got': '%s.%s' % (got.__module__, got.__qualname__),
                                       'expected': '%s.%s' % (want.__module__, want.__qualname__), 'order': order}}
        finally:
            ctx.pop(obj)
        if len(ctx.contexts) != depth:
            return {'sig': 'C04|api|depth', 'detail': {'class': key, 'order': order}}
        n += 1
    return {'ok': n}


def execute_locals(record, res):
    import pickle
    viol, log = [], []
    for op in record['ops']:
        if op.get('op') != 'LOCALS':
            continue
        r, w = os.pipe()
        pid = os.fork()
        if pid == 0:
            try:
                os.close(r)
                try:
                    out = _locals_child(op['order'])
                except BaseException as e:
                    import traceback
                    out = {'error': traceback.format_exc()[-1500:]}
                os.write(w, pickle.dumps(out))
            finally:
                os._exit(0)
        os.close(w)
        chunks = []
        while True:
            b = os.read(r, 1 << 20)
            if not b:
                break
            chunks.append(b)
        os.close(r)
        os.waitpid(pid, 0)
        out = pickle.loads(b''.join(chunks)) if chunks else {'error': 'no result'}
        if 'error' in out:
            raise core.HarnessError('locals sweep failed: %s' % out['error'])
        log.append([op['order'], out.get('ok'), out.get('sig')])
        if 'sig' in out:
            viol.append(out)
            break
        res['sub_evaluations'] = res.get('sub_evaluations', 0) + out['ok']
        res['sub_distinct'] = res.get('sub_distinct', 0) + out['ok']
    res['violations'] = viol
    res['probes'] = {'locals_sweep': 1}
    res['nontrivial'] = True
    res['steps'] = len(log)
    res['digest'] = core.hexdigest(record['ops'])
    res['log_digest'] = core.hexdigest(log)
    return res


# --------------------------------------------------------------------------
# a declaration used inside the ENVIRONMENT form of itself (\begin{small} ... \small ... \end{small}): \end must close
# the environment's frame, not merely the declaration's (OPEN finding `decl-in-own-env`: dedicated cases only)

DECL_ENV_NAMES = ['small', 'itshape', 'bfseries', 'large']


def execute_declenv(record, res):
    from plasTeX.TeX import TeX
    viol, log = [], []
    for op in record['ops']:
        if op.get('op') != 'DECLENV':
            continue
        d = op['name']
        inner = ('\\%s ' % d) if op.get('same', True) else '\\relax '
        source = PREAMBLE + 'A \\begin{%s}\\def\\na{IN}%sq\\end{%s}[x\\na]END\\end{document}' % (d, inner, d)
        tex = TeX()
        tex.input(source)
        doc = tex.parse()
        got = ''.join(str(doc.textContent).split())
        log.append([d, op.get('same', True), got[-20:]])
        if not got.endswith('[xna0]END'):
            viol.append({'sig': 'C04|tex|decl-in-own-env' if op.get('same', True) else 'C04|tex|text|macro',
                         'detail': {'source': source[len(PREAMBLE):], 'got_tail': got[-30:], 'expected_tail': '[xna0]END'}})
            break
    res['violations'] = viol
    res['probes'] = {'declaration_inside_its_environment_form': 1}
    res['nontrivial'] = True
    res['steps'] = len(log)
    res['digest'] = core.hexdigest(record['ops'])
    res['log_digest'] = core.hexdigest(log)
    return res


def execute_catalogue(record, res):
    import signal

    def alarm(signum, frame):
        raise TimeoutError()
    viol, log, probes = [], [], {}
    for op in record['ops']:
        if op.get('op') != 'CAT':
            continue
        old = signal.signal(signal.SIGALRM, alarm)
        signal.alarm(20)
        try:
            source, got, depth = run_cat(op)
        except BaseException as e:
            # the invocation does not get through the parser at all: not a statement about grouping
            probes['catalogue_raise'] = 1
            log.append([op['name'], 'raise', type(e).__name__])
            continue
        finally:
            signal.alarm(0)
            signal.signal(signal.SIGALRM, old)
        log.append([op['name'], op['dimen'], got[-40:], depth])
        probes['catalogue_' + ('dimen_spelling' if op['dimen'] != '{2pt}' else 'scope')] = 1
        what = None
        if not got.endswith('END'):
            what = 'lost-tail'
        elif depth != 1:
            what = 'final-depth'
        elif not got.endswith(CAT_EXPECT):
            tail = got[got.rfind('['):]
            what = 'macro' if 'xna0' not in tail else ('let' if 'xnb0' not in tail else 'catcode')
            if op.get('pkg'):
                probes['catalogue_package_macro'] = 1
        if what:
            viol.append({'sig': 'C04|tex|catalogue|%s' % what,
                         'detail': {'macro': op['name'], 'package': op.get('pkg'), 'source': source[-700:], 'got_tail': got[-80:], 'depth': depth,
                                    'expected_tail': CAT_EXPECT}})
            break
    res['violations'] = viol
    res['probes'] = probes
    res['steps'] = len(record['ops'])
    res['nontrivial'] = True
    res['digest'] = core.hexdigest(record['ops'])
    res['log_digest'] = core.hexdigest(log)
    res['sub_evaluations'] = len(log)
    res['sub_distinct'] = len(log)
    return res


def _classify(expected, got, n):
    # which probe family the first difference falls in: the probe starts at the last 'x' before n
    i = expected.rfind('x', 0, n + 1)
    seg = expected[i:i + 4]
    if seg[1:2] == 'n':
        return 'macro'
    if seg[1:2] in ('q', 'U'):
        return 'defined'
    if seg[1:2] in ('P', 'Q'):
        return 'package-macro'
    if seg[1:2] in ('L', 'O'):
        return 'catcode'
    if seg[1:2] in ('T', 'F'):
        return 'newif'
    if seg[1:2].isdigit():
        return 'counter'
    return 'other'


def simplify(record):
    ops = record['ops']
    for i, op in enumerate(ops):
        if op.get('op') == 'OPEN' and op['kind'] != 'brace':
            yield dict(record, ops=ops[:i] + [dict(op, kind='brace')] + ops[i + 1:])
        if op.get('op') == 'PROBE' and op['what'] == 'all':
            for w in NAMES + ['cat', 'if', 'counter', 'fresh']:
                yield dict(record, ops=ops[:i] + [dict(op, what=w)] + ops[i + 1:])
    sw = record['swarm']
    if len(sw.get('transports', [])) > 1:
        for t in sw['transports']:
            yield dict(record, swarm=dict(sw, transports=[t]))
