"""C15 - the filename generator yields unique, clean names in template order.

History: NEW(template, charsub, initial variables, extension, reserved) then up
to 12 REQUEST(bindings).  Real code: plasTeX.Filenames.Filenames.  Oracle: a
reference model written from the class docstring and the property statement.
There is no fault space here (no file, clock or scheduler is touched); what is
explored is the space of request histories.  "Loops forever" is decided by a
deterministic fuel counter (traced line events inside Filenames.py), not by
wall time.

Where the statement leaves behaviour open the model keeps a *set* of admissible
states (NFA style) and a result is accepted if at least one of them predicts it:
 * after a candidate collided with an issued/reserved name, later alternatives
   of the same request may see the request's bindings ("keep") or the initial
   namespace again ("reset"; what the shipped code does) - the statement only
   says that no duplicate is issued and that an error is reported when no fresh
   name can be formed;
 * "initial namespace" may be the constructor's variables or those at the first
   request (docstring: "the value sent in the initial generator call").
Normal form of generated histories (each keeps an unspecified corner out of the
oracle): a history ends at the first ERROR; static names use only constructor
variables and $num; in a template without [..] the last name has no variables;
a variable occurs at most once per name.
"""
import os
import sys

from .. import core

PID = 'C15'

META = {
    'level': 'exploration',
    'fork_batches': True,       # each batch runs in a forked child of the pool worker (bounded memory)
    'runs': {'quick': 60000, 'thorough': 6000000},
    'batch': {'quick': 500, 'thorough': 5000},
    'wall_cap': {'quick': 600, 'thorough': 3000},
    'rule': ('seeded request histories (NEW + <=12 REQUEST) over templates of the documented '
             'grammar; a run is non-trivial iff >=2 requests were answered and at least one of '
             '{collision skipped, $num advanced, fallback alternative chosen, word limit applied, '
             'error expected} occurred; distinct = distinct digest of (template, charsub, '
             'reserved, bindings sequence)'),
    'components': {'real': ['plasTeX.Filenames.Filenames (parseFilenames, _newFilename, addExtension)'],
                   'stub': ['none: the generator touches no file, clock or scheduler; '
                            'the caller (normally Renderable.filename) is the simulator']},
    'assumptions': ['reference model of the template grammar (sim/props/c15.py Model) is trusted',
                    'normal form: history ends at first ERROR; static names use only constructor '
                    'variables and $num; static-only templates end in a variable-free name',
                    'no fault space exists for this property (sequential refinement only)'],
    'probe_names': ['long_history', 'collision_skipped', 'error_expected', 'alt_fallback', 'words_limited',
                    'charsub_applied', 'ext_added', 'ext_present', 'static_dup_skipped',
                    'ambiguous', 'empty_value_with_n', 'num_skipped_taken', 'space_in_badchars_with_n'],
    'shrink_budget': 600,
}

FUEL = 200000

VALUES = ['alpha', 'beta gamma', 'one two three four', 'a:b', 'x/y z', '', ' ', 'sec 1.2', 'nl\nsep two', ' lead', 'trail ', '12', 'v1.2-notes',
          'Ünï cödé', 'dup', 'dup', 'a  b', 'tab\tsep', 'Intro', 'Intro',
          'The quick brown fox', '??', ':::', 'index', 'sect1', 'q.html', 'a b', 'a-b', 'nb\xa0sp two three', 'e\u0301 combining x',
          'w1 w2 w3 w4 w5 w6 w7 w8 w9 w10 w11 w12']
VARS = ['id', 'title', 'name', 'ref', 'sec_id']          # (an underscore is part of a variable name)
LITS = ['sect', 'file-', '_', 'index', 'toc', 'n', 'a.b', 'x', '-', 'p_', 'v.', '.h', 'dir/', 'd.x/', 'images/img-']
BADS = [None, [': #$%^&*!~`"\'=?/{}[]()|<>;\\,.', '-'], [' :/', '_'], [':/', '-'], ['', '-'],
        [' ', ''], ['\t :', '-'], [': #$%^&*!~`"\'=?/{}[]()|<>;\\,.', '_'],
        [':0', '-'], ['1 ', ''], ['2', 'x']]        # digits among the forbidden characters: the generated $num is exempt (its padding would go)
EXTS = ['.html', '.html', '.html', '', '.xml', 'html']


# --------------------------------------------------------------------------
# generation

def _gen_name(r, allow_vars, varpool, force_num=False, numonly=False):
    """A name = list of parts ['lit', s] | ['var', v, n|None, braces]."""
    parts = []
    used = set()
    n = r.randint(1, 3)
    for k in range(n):
        c = r.random()
        if numonly or not allow_vars or c < 0.4:
            parts.append(['lit', r.choice(LITS)])
        else:
            v = r.choice(varpool + ['num'])
            if v in used:
                parts.append(['lit', r.choice(LITS)])
                continue
            used.add(v)
            fmt = None
            if r.random() < 0.5:
                fmt = r.choice([1, 2, 2, 3, 4, 10]) if v != 'num' else r.choice([0, 1, 2, 3, 4, 12])
                if v != 'num' and r.random() < 0.05:
                    fmt = 0
            parts.append(['var', v, fmt, r.random() < 0.4])
    if (force_num or numonly) and 'num' not in used:
        parts.append(['var', 'num', r.choice([None, 3, 4]), r.random() < 0.4])
    if not parts:
        parts.append(['lit', 'f'])
    if r.random() < 0.15:
        parts.append(['lit', r.choice(['.html', '.htm', '.x'])])
    return parts


def render_name(parts):
    out = ''
    for i, p in enumerate(parts):
        if p[0] == 'lit':
            out += p[1]
        else:
            _, v, fmt, braces = p
            nxt = parts[i + 1][1] if i + 1 < len(parts) and parts[i + 1][0] == 'lit' else ''
            need = braces or (fmt is None and nxt[:1] and (nxt[:1].isalnum() or nxt[:1] == '_'))
            out += ('${%s}' % v) if need else ('$%s' % v)
            if fmt is not None:
                out += ('( %d )' if p[3] and fmt % 2 else '(%d)') % fmt
    return out


def render_spec(sw):
    names = [render_name(p) for p in sw['static']]
    w = sw['wildcard']
    if w:
        sep = sw.get('altsep', ', ')
        lb, rb = ('[ ', ' ]') if sw.get('altsep') == ' , ' else ('[', ']')
        names.append(render_name(w['prefix']) + lb + sep.join(render_name(a) for a in w['alts'])
                     + rb + render_name(w['suffix']))
    return sw.get('namesep', ' ').join(names)


def generate(seed, tier):
    R = core.Rngs(seed)
    r = R('template')
    initial = {}
    if r.random() < 0.6:
        initial['jobname'] = r.choice(['job', 'my doc', 'j:1'])
    ctorvars = sorted(initial)
    static = []
    for k in range(r.choice([0, 0, 1, 1, 2, 3])):
        static.append(_gen_name(r, r.random() < 0.4, ctorvars))
    wildcard = None
    if r.random() < 0.85:
        nalt = r.choice([1, 2, 2, 3, 3, 4])
        alts = []
        prefix = [['lit', r.choice(LITS)]] if r.random() < 0.4 else []
        if ctorvars and r.random() < 0.3:
            prefix.append(['var', 'jobname', None, True])
            prefix.append(['lit', '_'])
            ctorvars = []       # normal form: a variable occurs at most once per name
        for k in range(nalt):
            last = (k == nalt - 1)
            if last and r.random() < 0.75:
                alts.append(_gen_name(r, True, [], numonly=True))       # documented fail-safe
            else:
                alts.append(_gen_name(r, True, VARS + ctorvars))
        suffix = [['lit', r.choice(['.html', '.htm', '-x', '_s'])]] if r.random() < 0.3 else []
        wildcard = {'prefix': prefix, 'alts': alts, 'suffix': suffix}
    else:
        # static-only template: normal form = the last name has no variables
        static.append([['lit', r.choice(LITS)], ['lit', r.choice(['', '1', '.html'])]])
    rv = R('values')
    pool = [rv.choice(VALUES) for _ in range(rv.randint(2, 6))]
    reserved = []
    rr = R('reserved')
    for k in range(rr.choice([0, 0, 1, 2, 4])):
        reserved.append(rr.choice(['index.html', 'sect1.html', 'sect0001.html', 'alpha.html', 'dup.html',
                                   'sect001', 'sect1', 'toc.html', 'Intro.html', '1.html', 'n1.html',
                                   'index', 'sect2.html', 'file-1.html', 'x1.html', '001.html', '0001.html', 'INDEX.html', 'Sect1.html',
                                   'sect1.htm', 'index.xml']))
    swarm = {
        'static': static, 'wildcard': wildcard, 'charsub': r.choice(BADS), 'initial': initial,
        'extension': r.choice(EXTS), 'reserved': reserved,
        'altsep': r.choice([', ', ',', ' , ']), 'namesep': r.choice([' ', '  ', ' \t']),
    }
    ro = R('ops')
    nreq = ro.choice([1, 2, 3, 3, 4, 5, 6, 8, 12])
    if ro.random() < 0.03:
        nreq = ro.randint(100, 130)       # a book-sized document: well beyond the give-up bound of 100 passes
    first_keys = sorted(ro.sample(VARS, ro.choice([0, 0, 1, 2])))
    ops = []
    for k in range(nreq):
        keys = set(first_keys)
        for v in VARS:
            if ro.random() < 0.45:
                keys.add(v)
        if ro.random() < 0.1:
            keys = set(first_keys)
        ops.append({'op': 'REQ', 'bind': dict((v, rv.choice(pool)) for v in sorted(keys))})
    if nreq >= 100 and wildcard:
        # reserve a few names the numbered fail-safe will reach late in the history (a collision after >100 requests)
        full = wildcard['prefix'] + wildcard['alts'][-1] + wildcard['suffix']
        for n in ro.sample(range(60, 140), 8):
            text, uses = instantiate(full, dict(initial), n, swarm['charsub'])
            if text is not None and uses:
                swarm['reserved'].append(add_ext(text, swarm['extension']))
    return {'property': PID, 'seed': seed, 'swarm': swarm, 'ops': ops}


# --------------------------------------------------------------------------
# reference model

def _charsub(value, charsub):
    if charsub:
        for ch in charsub[0]:
            value = value.replace(ch, charsub[1])
    return value


def instantiate(parts, ns, num, charsub, info=None):
    """-> (text, uses_num) or (None, False) when a variable is unbound."""
    out = ''
    uses_num = False
    for p in parts:
        if p[0] == 'lit':
            out += p[1]
            continue
        _, v, fmt, _b = p
        if v == 'num':
            uses_num = True
            out += str(num).zfill(fmt or 0)
            continue
        if v not in ns:
            return None, False
        value = ns[v]
        if fmt is not None:
            words = value.split()
            if info is not None:
                if len(words) > fmt:
                    info['words_limited'] = 1
                if not words:
                    info['empty_value_with_n'] = 1
                if charsub and any(c.isspace() for c in charsub[0]) and len(words) > fmt:
                    info['space_in_badchars_with_n'] = 1
            value = ' '.join(words[:fmt])
        new = _charsub(value, charsub)
        if info is not None and new != value:
            info['charsub_applied'] = 1
        out += new
    return out, uses_num


def add_ext(name, ext, info=None):
    if not os.path.splitext(name)[-1]:
        if info is not None and ext:
            info['ext_added'] = 1
        return name + ext
    if info is not None:
        info['ext_present'] = 1
    return name


class Model(object):
    """Deterministic model for one variant.  variant = (collision, initial):
    collision in {'keep','reset'}; initial in {'ctor','first'}."""

    def __init__(self, sw):
        self.sw = sw
        w = sw['wildcard']
        static = [p for p in sw['static']]
        if w:
            self.alts = [w['prefix'] + a + w['suffix'] for a in w['alts']]
        elif static:
            self.alts = [static.pop()]
        else:
            self.alts = []
        self.static = static

    def initial_state(self):
        return (0, 1, frozenset(self.sw['reserved']))

    def step(self, state, bind, first_bind, variant, info):
        """-> ('name', text, newstate) | ('ERROR', None, None)"""
        collision, initial = variant
        sw = self.sw
        si, num, taken = state
        base = dict(sw['initial'])
        if initial == 'first':
            base.update(first_bind)
        ns = dict(base)
        ns.update(bind)
        cs, ext = sw['charsub'], sw['extension']
        while si < len(self.static):
            text, uses = instantiate(self.static[si], ns, num, cs, info)
            si += 1
            if text is None:
                continue            # outside normal form; mirrors "skip"
            if uses:
                num += 1
            text = add_ext(text, ext, info)
            if text not in taken:
                return 'name', text, (si, num, taken | frozenset([text]))
            info['static_dup_skipped'] = 1
            if collision == 'reset':
                ns = dict(base)
        while True:
            progressed = False
            for ai, alt in enumerate(self.alts):
                text, uses = instantiate(alt, ns, num, cs, info)
                if text is None:
                    continue
                if uses:
                    num += 1
                    progressed = True
                text = add_ext(text, ext, info)
                if text not in taken:
                    if ai > 0:
                        info['alt_fallback'] = 1
                    return 'name', text, (si, num, taken | frozenset([text]))
                info['collision_skipped'] = 1
                if uses:
                    info['num_skipped_taken'] = 1
                if collision == 'reset' and ns != base:
                    ns = dict(base)
                    progressed = True      # the next pass sees another namespace
            if not progressed or num > 2000:
                info['error_expected'] = 1
                return 'ERROR', None, None


VARIANTS = [('keep', 'ctor'), ('reset', 'ctor'), ('reset', 'first'), ('keep', 'first')]


# --------------------------------------------------------------------------
# execution against the real code

class FuelExhausted(BaseException):
    pass


def _call_with_fuel(fn, filename_suffix='Filenames.py'):
    fuel = [FUEL]

    def local(frame, event, arg):
        if event == 'line':
            fuel[0] -= 1
            if fuel[0] < 0:
                raise FuelExhausted()
        return local

    def tracer(frame, event, arg):
        if frame.f_code.co_filename.endswith(filename_suffix):
            return local
        return None

    old = sys.gettrace()
    sys.settrace(tracer)
    try:
        return fn(), FUEL - fuel[0]
    finally:
        sys.settrace(old)


def execute(record):
    from plasTeX.Filenames import Filenames
    res = core.empty_result()
    sw = record['swarm']
    spec = render_spec(sw)
    log = [spec]
    info = {}
    model = Model(sw)
    states = {}   # variant -> state
    for v in VARIANTS:
        states[v] = model.initial_state()
    viol = None
    if not sw['reserved']:
        # two generators in one interpreter must not share their set of issued names (a mutable default argument
        # would): a throw-away generator with the same template issues a few names first
        try:
            pre = Filenames(spec, charsub=list(sw['charsub']) if sw['charsub'] else None, variables=dict(sw['initial']),
                            extension=sw['extension'])
            for op in record['ops'][:3]:
                for k, v in op.get('bind', {}).items():
                    pre.variables[k] = v
                _call_with_fuel(pre)
        except (Exception, FuelExhausted):
            pass
    try:
        gen = Filenames(spec, charsub=list(sw['charsub']) if sw['charsub'] else None,
                        variables=dict(sw['initial']), extension=sw['extension'],
                        invalid=(dict((n, None) for n in sw['reserved']) if sw['reserved'] else None))
    except Exception as e:
        res['violations'].append({'sig': 'C15|raise|new|%s' % type(e).__name__,
                                  'detail': {'spec': spec, 'exception': repr(e)}})
        res['digest'] = res['log_digest'] = core.hexdigest(log)
        return res
    issued = []
    first_bind = None
    answered = 0
    steps = 0
    for op in record['ops']:
        if op.get('op') != 'REQ':
            continue
        bind = op['bind']
        if first_bind is None:
            first_bind = dict(bind)
        for k, v in bind.items():
            gen.variables[k] = v
        # model: every admissible variant
        preds = {}
        for var, st in states.items():
            preds[var] = model.step(st, bind, first_bind, var, info)
        phase = 'static' if any(st[0] < len(model.static) for st in states.values()) else 'wildcard'
        try:
            got, used = _call_with_fuel(gen)
            exc = None
        except FuelExhausted:
            viol = {'sig': 'C15|liveness|%s' % phase,
                    'detail': {'spec': spec, 'request': answered, 'bind': bind,
                               'what': 'no answer within %d traced line events' % FUEL}}
            break
        except Exception as e:
            got, exc, used = None, e, 0
        steps += used
        log.append([bind, got, type(exc).__name__ if exc else None])
        outcomes = set((p[0], p[1]) for p in preds.values())
        if len(outcomes) > 1:
            info['ambiguous'] = 1
        if exc is not None:
            if ('ERROR', None) in outcomes:
                answered += 1
                break            # normal form: a history ends at the first ERROR
            viol = {'sig': 'C15|raise|%s|%s' % (phase, type(exc).__name__),
                    'detail': {'spec': spec, 'request': answered, 'bind': bind, 'exception': repr(exc),
                               'expected': sorted(str(o[1]) for o in outcomes), 'issued': issued}}
            break
        taken = set(issued) | set(sw['reserved'])
        if got in taken:
            viol = {'sig': 'C15|duplicate|%s' % phase,
                    'detail': {'spec': spec, 'request': answered, 'bind': bind, 'got': got,
                               'issued': issued, 'reserved': sw['reserved']}}
            break
        if ('name', got) not in outcomes:
            if outcomes == set([('ERROR', None)]):
                sig = 'C15|noerror|%s' % phase
            else:
                sig = 'C15|mismatch|%s' % phase
            viol = {'sig': sig,
                    'detail': {'spec': spec, 'request': answered, 'bind': bind, 'got': got,
                               'expected_one_of': sorted(str(o[1]) for o in outcomes),
                               'issued': issued, 'charsub': sw['charsub'],
                               'extension': sw['extension'], 'reserved': sw['reserved']}}
            break
        issued.append(got)
        answered += 1
        # keep the variants that predicted this answer
        states = dict((var, p[2]) for var, p in preds.items() if p[0] == 'name' and p[1] == got)
        for st in states.values():
            res['states'].append(core.h64(st[0], st[1], sorted(st[2])))
    if viol:
        res['violations'].append(viol)
    if answered > 100:
        info['long_history'] = 1
    res['probes'] = dict((k, 1) for k in info)
    res['steps'] = steps
    res['nontrivial'] = answered >= 2 and any(k in info for k in (
        'collision_skipped', 'alt_fallback', 'words_limited', 'error_expected', 'num_skipped_taken',
        'static_dup_skipped')) or (answered >= 2 and any(st[1] > 1 for st in states.values()))
    res['digest'] = core.hexdigest([spec, sw['charsub'], sw['reserved'], sw['extension'], sw['initial'],
                                    [o.get('bind') for o in record['ops']]])
    res['log_digest'] = core.hexdigest(log)
    return res


# --------------------------------------------------------------------------
# shrinking help: simpler templates / values

def simplify(record):
    sw = record['swarm']

    def mk(**kw):
        r = dict(record)
        s = dict(sw)
        s.update(kw)
        r['swarm'] = s
        return r
    if sw['reserved']:
        for i in range(len(sw['reserved'])):
            yield mk(reserved=sw['reserved'][:i] + sw['reserved'][i + 1:])
    if sw['static']:
        for i in range(len(sw['static'])):
            if sw['wildcard'] or len(sw['static']) > 1:
                yield mk(static=sw['static'][:i] + sw['static'][i + 1:])
    w = sw['wildcard']
    if w:
        if len(w['alts']) > 1:
            for i in range(len(w['alts'])):
                yield mk(wildcard=dict(w, alts=w['alts'][:i] + w['alts'][i + 1:]))
        if w['prefix']:
            yield mk(wildcard=dict(w, prefix=[]))
        if w['suffix']:
            yield mk(wildcard=dict(w, suffix=[]))
        for i, a in enumerate(w['alts']):
            if len(a) > 1:
                for j in range(len(a)):
                    na = a[:j] + a[j + 1:]
                    yield mk(wildcard=dict(w, alts=w['alts'][:i] + [na] + w['alts'][i + 1:]))
    if sw['charsub'] and len(sw['charsub'][0]) > 1:
        for ch in sw['charsub'][0]:
            yield mk(charsub=[ch, sw['charsub'][1]])
    if sw['charsub']:
        yield mk(charsub=None)
    if sw['initial']:
        yield mk(initial={})
    if sw['extension'] not in ('', '.html'):
        yield mk(extension='.html')
    if sw.get('altsep') != ',' or sw.get('namesep') != ' ':
        yield mk(altsep=',', namesep=' ')
    for i, op in enumerate(record['ops']):
        for k in sorted(op.get('bind', {})):
            b = dict(op['bind'])
            del b[k]
            r = dict(record)
            r['ops'] = record['ops'][:i] + [dict(op, bind=b)] + record['ops'][i + 1:]
            yield r
        for k, v in sorted(op.get('bind', {}).items()):
            for simpler in ('a', 'a b c'):
                if len(simpler) < len(v) or (v not in ('a', 'a b c') and not v.isalpha()):
                    b = dict(op['bind'])
                    b[k] = simpler
                    r = dict(record)
                    r['ops'] = record['ops'][:i] + [dict(op, bind=b)] + record['ops'][i + 1:]
                    yield r
