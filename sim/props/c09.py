"""C09 - every reference resolves to the object its label names, wherever the label is.

Claimed for the ordering clauses: the mechanism is a pair of shared tables
(labels, pending references keyed by label, the current labelled object) that
are patched when the other party shows up.  From ONE multiset of events
(numbered objects with their labels, references, dangling references) the
scheduler produces P delivery orders: every reference is placed at a seeded
slot - before, inside or after its target, several pending on one label - while
the objects keep their own order.  Two transports carry each schedule:
 API       a bare Context and stub nodes (currentlabel / label() / ref());
 document  the schedule compiled to LaTeX and parsed by the real TeX.
Checks: R1 exact target, R2 dangling resolves to no object, R3 distinct ids,
R4 confluence (the resolution map is the same for all P orders), R5 printed
number = the target's number (self-consistency).
"""
from .. import core

PID = 'C09'

META = {
    'level': 'exploration',
    'fork_batches': True,       # each batch runs in a forked child of the pool worker (bounded memory)
    'runs': {'quick': 6000, 'thorough': 400000},
    'batch': {'quick': 50, 'thorough': 500},
    'wall_cap': {'quick': 900, 'thorough': 3300},
    'rule': ('seeded event multisets (3-9 numbered objects of 7 kinds, 0-1 label each, 2-10 references incl. dangling), '
             'each delivered in P orders (4 quick / 12 thorough) over two transports; non-trivial iff some label has a '
             'reference before AND after it and >=2 references were pending on one label in some order; distinct = digest '
             'of (events, orders)'),
    'components': {'real': ['plasTeX.Context.label/ref, currentlabel', 'plasTeX.TeX (castLabel/castRef, parse)', 'Macro.refstepcounter / id / idref',
                            'Base.LaTeX Crossref, Sectioning, Math, Lists, Floats, newtheorem'],
                   'stub': ['API transport: stub Element nodes stand for numbered objects; no file, clock or process fault '
                            'exists for this property - the simulator owns the ORDER of label/reference events only']},
    'assumptions': ['generator bookkeeping (which marker carries which label) is the reference model',
                    'normal form: labels are unique and at most one per object (the statement speaks of distinct labels); '
                    'the objects keep their relative order across the P orders (only reference positions move)',
                    'the "printed number" clause is checked as self-consistency with the target; whether that number is '
                    'LaTeX\'s is C08 (not applicable)'],
    'probe_names': ['label_on_empty_caption', 'chapter_numbers_two_digits_and_appendix', 'label_on_display_row', 'label_inside_caption', 'label_after_closed_inner_env', 'label_on_unnumbered_heading', 'ref_in_title', 'ref_in_footnote', 'forward_ref', 'backward_ref', 'inside_ref', 'two_pending_same_label', 'dangling_ref',
                    'pageref', 'label_on_item', 'label_on_caption', 'label_on_theorem', 'unlabelled_between'],
    'shrink_budget': 300,
}

KINDS = ['section', 'subsection', 'equation', 'item', 'item2', 'figure', 'figure0', 'table', 'theorem', 'lemma', 'prop',
         'subsubsection', 'paragraph', 'figurec', 'tablec', 'captionin', 'align1', 'align2', 'eqnarray1', 'eqnarray2',
         'sectionstar', 'subsectionstar', 'eqaligned', 'longtable', 'longtable2', 'item3']
HEADINGS = ('section', 'subsection', 'subsubsection', 'paragraph', 'sectionstar', 'subsectionstar')


def generate(seed, tier):
    R = core.Rngs(seed)
    r = R('events')
    nobj = r.randint(3, 9)
    if r.random() < 0.1:
        nobj = r.randint(10, 18)        # two-digit numbers (and more than nine objects of a kind)
    objs = []
    for k in range(nobj):
        spell = r.choice(['lab%d', 'lab%d', 'sec:a%d', 'eq-1-%d', '9%d', 'my lab %d', 'Fig.%d'])     # no '_' : a label argument is not read verbatim (in math '_' is a subscript), which is argument parsing (C05), not resolution
        objs.append({'kind': r.choice(KINDS), 'm': 'ob%02d' % k, 'label': (spell % k) if r.random() < 0.7 else None,
                     'lsp': r.random() < 0.15, 'lmac': r.random() < 0.12})
    labels = [o['label'] for o in objs if o['label']]
    refs = []
    for k in range(r.randint(2, 10)):
        c = r.random()
        if c < 0.15 or not labels:
            lab = 'nolabel%d' % r.randrange(3)
        else:
            lab = r.choice(labels)
        refs.append({'m': 'rf%d' % k, 'label': lab, 'page': r.random() < 0.2,
                     'place': r.choice(['body', 'body', 'body', 'title', 'footnote', 'textbf', 'cell', 'item']),
                     'rsp': r.choice([0, 0, 0, 1, 2]), 'rmac': r.random() < 0.12})
    if labels and r.random() < 0.5:          # force several references to one label
        lab = r.choice(labels)
        for k in range(2):
            refs.append({'m': 'rx%d' % k, 'label': lab, 'page': False})
    P = 4 if tier == 'quick' else 12
    ro = R('orders')
    orders = []
    for p in range(P):
        # slot s in [0, 2*nobj]: even 2j = before object j, odd 2j+1 = inside object j, 2*nobj = after the last
        orders.append([ro.randrange(2 * nobj + 1) for _ in refs])
    ops = [{'op': 'OBJ', 'kind': o['kind'], 'm': o['m'], 'label': o['label'], 'lsp': o.get('lsp', False), 'lmac': o.get('lmac', False)} for o in objs]
    ops += [{'op': 'REF', 'm': x['m'], 'label': x['label'], 'page': x['page'], 'slots': [o[i] for o in orders],
             'place': x.get('place', 'body'), 'rsp': x.get('rsp', 0), 'rmac': x.get('rmac', False)}
            for i, x in enumerate(refs)]
    return {'property': PID, 'seed': seed, 'swarm': {'P': P, 'transports': ['api', 'doc']}, 'ops': ops}


# --------------------------------------------------------------------------
# schedules

def schedule(objs, refs, p):
    """-> list of events for order p: ('OBJ', obj, inner_refs) / ('REF', ref)."""
    n = len(objs)
    before = dict((j, []) for j in range(n + 1))
    inside = dict((j, []) for j in range(n))
    for x in refs:
        slots = x.get('slots') or [0]
        s = slots[p % len(slots)] % (2 * n + 1) if n else 0
        if n == 0:
            before[0].append(x)
        elif s % 2 == 0:
            before[s // 2].append(x)
        else:
            inside[s // 2].append(x)
    ev = []
    for j, o in enumerate(objs):
        for x in before[j]:
            ev.append(('REF', x))
        ev.append(('OBJ', o, inside[j]))
    for x in before[n]:
        ev.append(('REF', x))
    return ev


# --------------------------------------------------------------------------
# transport 1: Context API with stub nodes

def run_api(events):
    from plasTeX import TeXDocument
    doc = TeXDocument()
    ctx = doc.context
    objnode = {}
    resolved = {}
    refnodes = []
    for e in events:
        if e[0] == 'OBJ':
            o = e[1]
            n = doc.createElement(o['kind'])
            n.marker = o['m']
            objnode[o['m']] = n
            ctx.currentlabel = n
            inner = list(e[2])
            half = len(inner) // 2
            for x in inner[:half]:
                refnodes.append(_api_ref(doc, ctx, x))
            if o['label']:
                ctx.label(o['label'])
            for x in inner[half:]:
                refnodes.append(_api_ref(doc, ctx, x))
        else:
            refnodes.append(_api_ref(doc, ctx, e[1]))
    out = {}
    for x, node in refnodes:
        t = node.idref.get('label')
        out[x['m']] = {'target_marker': getattr(t, 'marker', None), 'target_id': _str(getattr(t, 'id', None)),
                       'has_parent': getattr(t, 'parentNode', None) is not None,
                       'is_object': any(t is n for n in objnode.values()), 'number': None}
    ids = dict((m, _str(getattr(n, 'id', None))) for m, n in objnode.items())
    return out, ids, {'pending_left': sorted(ctx.refs.keys())}


def _str(v):
    # plasTeX's Text is a str subclass whose __str__ returns itself (with its document attached): build an exact str
    return None if v is None else ''.join(str(v))


def prepare():
    from plasTeX.Logging import disableLogging
    disableLogging()


def _api_ref(doc, ctx, x):
    node = doc.createElement('pageref' if x['page'] else 'ref')
    ctx.ref(node, 'label', x['label'])
    return x, node


# --------------------------------------------------------------------------
# transport 2: the schedule compiled to LaTeX, parsed by the real TeX

def _mac(lab):
    """The same key with its first 'a' produced by a macro (\\newcommand{\\qa}{a} in the preamble): keys are expanded."""
    i = lab.find('a')
    if i < 0 or lab[i + 1:i + 2] == ' ':
        return lab
    return lab[:i] + '\\qa ' + lab[i + 1:]


def _ref_tex(x, dot='.'):
    key = _mac(x['label']) if x.get('rmac') else x['label']
    lab = [key, key + ' ', ' ' + key][x.get('rsp', 0) % 3]      # blanks around the key are not part of it
    return 'R%s \\%s{%s}%s' % (x['m'], 'pageref' if x['page'] else 'ref', lab, dot)


def _ref_par(x):
    place = x.get('place')
    if place == 'footnote':
        return 'Foot\\footnote{fn %s} note.' % _ref_tex(x)
    if place == 'textbf':
        return 'Bold \\textbf{b \\emph{%s}} text.' % _ref_tex(x)
    if place == 'cell':
        return '\\begin{tabular}{ll}c1 & %s\\end{tabular}' % _ref_tex(x, '')
    if place == 'item':
        return '\\begin{itemize}\\item %s\\end{itemize}' % _ref_tex(x)
    return _ref_tex(x)


def compile_doc(events):
    kinds_used = set(e[1]['kind'] for e in events if e[0] == 'OBJ')
    lines = ['\\documentclass{article}'] + (['\\usepackage{amsmath}'] if any(k.startswith('align') or k == 'eqaligned' for k in kinds_used) else []) + (
             ['\\usepackage{longtable}'] if any(k.startswith('longtable') for k in kinds_used) else []) + [
             '\\newcommand{\\qa}{a}', '\\newtheorem{thm}{Theorem}', '\\newtheorem{lem}[thm]{Lemma}',
             '\\newtheorem{prop}{Proposition}[subsection]', '\\begin{document}']
    for e in events:
        if e[0] == 'REF':
            lines.append(_ref_par(e[1]))
            lines.append('')
            continue
        o, inner = e[1], e[2]
        k, m = o['kind'], o['m']
        # references written inside the TITLE / CAPTION of the object itself
        intitle = [x for x in inner if x.get('place') == 'title' and k in HEADINGS + ('figure', 'table', 'figurec', 'tablec')]
        inner = [x for x in inner if not any(x is y for y in intitle)]
        ttl = ''.join(' ' + _ref_tex(x, '') for x in intitle)
        half = len(inner) // 2
        # inside a numbered object a reference is never wrapped in a list of its own: its \item would become the
        # current object and take the \label that follows
        inner = [dict(x, place='body') if x.get('place') == 'item' else x for x in inner]
        pre = ' '.join(_ref_par(x) for x in inner[:half])
        post = ' '.join(_ref_par(x) for x in inner[half:])
        key = (_mac(o['label']) if o.get('lmac') else o['label']) if o['label'] else None
        lab = ('\\label{%s}' % ((' %s ' % key) if o.get('lsp') else key)) if o['label'] else ''
        if k in HEADINGS:
            # (subsubsection and paragraph lie beyond the default sec-num-depth: unnumbered, but labelled all the same)
            lines.append('\\%s{T%s%s}%s' % (k.replace('star', '*'), m, ttl, lab))
            lines.append('%s body%s %s' % (pre, m, post))
        elif k == 'equation':
            # references cannot stand inside display math: they go around it
            lines.append(pre)
            lines.append('\\begin{equation}%s \\mbox{%s}=1 \\end{equation}' % (lab, m))
            lines.append(post)
        elif k == 'item':
            lines.append('\\begin{enumerate}\\item %s %s %s %s\\end{enumerate}' % (pre, lab, m, post))
        elif k == 'item2':
            # the labelled item is the second of its list and follows a nested list
            lines.append('\\begin{enumerate}\\item first\\begin{enumerate}\\item inner\\item inner2\\end{enumerate}'
                         '\\item %s %s %s %s\\item last\\end{enumerate}' % (pre, lab, m, post))
        elif k == 'item3':
            # the labelled item is the FIRST item of the second of two sibling sub-lists of one outer item
            lines.append('\\begin{enumerate}\\item outer\\begin{enumerate}\\item a\\item b\\end{enumerate}'
                         '\\begin{enumerate}\\item %s %s %s %s\\item c\\end{enumerate}\\item last\\end{enumerate}' % (pre, lab, m, post))
        elif k == 'lemma':
            lines.append('\\begin{lem}%s %s %s %s\\end{lem}' % (lab, pre, m, post))
        elif k == 'prop':
            lines.append('\\begin{prop}%s %s %s %s\\end{prop}' % (lab, pre, m, post))
        elif k in ('figure', 'table'):
            lines.append('\\begin{%s} %s \\caption{C%s%s}%s %s\\end{%s}' % (k, pre, m, ttl, lab, post, k))
        elif k in ('figurec', 'tablec'):
            # the caption sits in an inner environment that is closed again when the \label comes
            env = k[:-1]
            lines.append('\\begin{%s}\\begin{center} %s \\caption{C%s%s}\\end{center}%s %s\\end{%s}' % (env, pre, m, ttl, lab, post, env))
        elif k == 'captionin':
            # the label is written INSIDE the caption's argument
            lines.append('\\begin{figure} %s \\caption{C%s%s %s}%s\\end{figure}' % (pre, m, ttl, lab, post))
        elif k in ('align1', 'align2', 'eqnarray1', 'eqnarray2'):
            # a two-row display, both rows numbered (they share the equation counter); the label is on row 1 or row 2
            env, sep = ('align', '&=') if k.startswith('align') else ('eqnarray', '&=&')
            row1 = 'a%s\\mbox{%s}' % (sep, m if k.endswith('1') else 'u')
            row2 = 'c%s\\mbox{%s}' % (sep, m if k.endswith('2') else 'v')
            lines.append(pre)
            lines.append('\\begin{%s}%s%s\\\\ %s%s\\end{%s}' % (env, row1, lab if k.endswith('1') else '', row2, lab if k.endswith('2') else '', env))
            lines.append(post)
        elif k == 'eqaligned':
            # a multi-row aligned block inside a numbered equation, the label AFTER the block
            lines.append(pre)
            lines.append('\\begin{equation}\\begin{aligned} a&=\\mbox{%s}\\\\ c&=d \\end{aligned}%s\\end{equation}' % (m, lab))
            lines.append(post)
        elif k in ('longtable', 'longtable2'):
            # a long table (its caption takes a TABLE number); longtable2 repeats a caption in the continuation head,
            # which must not consume a second number
            cont = '\\endfirsthead \\caption[]{(continued)}\\\\ x&y\\\\ \\endhead ' if k == 'longtable2' else ''
            lines.append(pre)
            lines.append('\\begin{longtable}{ll}\\caption{C%s}%s\\\\ a&b\\\\ %sc&d\\\\ \\end{longtable}' % (m, lab, cont))
            lines.append(post)
        elif k == 'figure0':
            # a float whose caption is EMPTY (the labelled node has no children when later references are read)
            lines.append('\\begin{figure} %s F%s \\caption{}%s %s\\end{figure}' % (pre, m, lab, post))
        elif k == 'theorem':
            lines.append('\\begin{thm}%s %s %s %s\\end{thm}' % (lab, pre, m, post))
        lines.append('')
    lines.append('\\end{document}')
    return '\n'.join(lines)


def _all_nodes(node, out):
    out.append(node)
    attrs = getattr(node, 'attributes', None)
    if attrs:
        for v in attrs.values():
            if hasattr(v, 'nodeType') and v.nodeType != v.TEXT_NODE:
                _all_nodes(v, out)
    if node.nodeType != node.TEXT_NODE:
        for c in node.childNodes:
            if c.nodeType != c.TEXT_NODE:
                _all_nodes(c, out)
    return out


EXPECT_NODE = {'section': ('section',), 'subsection': ('subsection',), 'equation': ('equation',), 'item': ('item',),
               'figure': ('caption',), 'table': ('caption',), 'theorem': ('thm', 'thmenv'), 'item2': ('item',),
               'lemma': ('lem', 'thmenv'), 'figure0': ('caption',), 'prop': ('prop', 'thmenv'),
               'subsubsection': ('subsubsection',), 'paragraph': ('paragraph',), 'figurec': ('caption',), 'tablec': ('caption',),
               'item3': ('item',), 'eqaligned': ('equation',), 'longtable': ('caption',), 'longtable2': ('caption',),
               'sectionstar': ('section',), 'subsectionstar': ('subsection',), 'captionin': ('caption',), 'align1': ('align',), 'align2': ('ArrayRow',), 'eqnarray1': ('eqnarray',), 'eqnarray2': ('ArrayRow',)}


def run_doc(events, objs):
    from plasTeX.TeX import TeX
    tex = TeX()
    tex.input(compile_doc(events))
    doc = tex.parse()
    nodes = _all_nodes(doc, [])
    objnode = {}
    for o in objs:
        cands = []
        if o['kind'] in ('longtable', 'longtable2'):
            # the caption of a long table is taken out of the rows and kept as the table's `title`
            for n in nodes:
                cap = getattr(n, 'title', None) if n.nodeName == 'longtable' else None
                try:
                    if cap is not None and ('C' + o['m']) in str(cap.textContent):
                        cands.append(cap)
                except Exception:
                    pass
            objnode[o['m']] = cands
            continue
        for n in nodes:
            if n.nodeName in EXPECT_NODE[o['kind']]:
                txt = ''
                try:
                    if o['kind'] == 'figure0':
                        fig = n.parentNode
                        while fig is not None and fig.nodeName != 'figure':
                            fig = fig.parentNode
                        txt = 'C' + o['m'] if fig is not None and ('F' + o['m']) in str(fig.textContent).split() else ''
                    elif o['kind'] in HEADINGS:
                        txt = n.attributes['title'].textContent
                    else:
                        txt = n.textContent
                        if n.nodeName == 'caption':
                            pass
                except Exception:
                    txt = ''
                if ('T' + o['m'] in txt) or ('C' + o['m'] in txt) or (o['kind'] in ('equation', 'item', 'item2', 'item3', 'theorem', 'lemma', 'prop') and o['m'] in txt.split()) \
                        or (o['kind'] in ('equation', 'align1', 'align2', 'eqnarray1', 'eqnarray2', 'eqaligned') and o['m'] in txt):
                    cands.append(n)
        if o['kind'] == 'item3' and len(cands) > 1:
            # the enclosing outer item contains the marker too: the object is the innermost candidate
            def inside(a, b):
                p = a.parentNode
                while p is not None:
                    if p is b:
                        return True
                    p = p.parentNode
                return False
            cands = [c for c in cands if not any(inside(d, c) for d in cands if d is not c)]
        objnode[o['m']] = cands
    out = {}
    for n in nodes:
        if n.nodeName in ('ref', 'pageref'):
            t = n.idref.get('label')
            # which reference is this?  the marker word directly precedes it in its paragraph
            prev = n.previousSibling
            mk = None
            if prev is not None and prev.nodeType == prev.TEXT_NODE:
                words = str(prev).split()
                if words and words[-1].startswith('R'):
                    mk = words[-1][1:]
            tm = None
            for m, cands in objnode.items():
                if any(t is c for c in cands):
                    tm = m
            num = None
            try:
                num = _str(t.ref.textContent) if getattr(t, 'ref', None) is not None else None
            except Exception:
                num = None
            out[mk] = {'target_marker': tm, 'target_id': _str(getattr(t, 'id', None)),
                       'has_parent': getattr(t, 'parentNode', None) is not None,
                       'is_object': tm is not None, 'number': num, 'target_node': _str(getattr(t, 'nodeName', None))}
    ids = {}
    for m, cands in objnode.items():
        ids[m] = [_str(getattr(c, 'id', None)) for c in cands]
    return out, ids, {'pending_left': sorted(doc.context.refs.keys())}


# --------------------------------------------------------------------------

# --------------------------------------------------------------------------
# chapter-based classes: numbers with two parts, chapter 10 and beyond (a "0." inside a number), the appendix (letters)

def enumerate_cases(base_seed, tier):
    out = []
    for cls in ('book', 'report'):
        for n in ((11, 21) if tier == 'thorough' else (11,)):
            out.append({'property': PID, 'seed': core.h64('C09-book', cls, n), 'swarm': {'book': cls, 'transports': ['doc']},
                        'ops': [{'op': 'BOOK', 'chapters': n}]})
    # front and back matter of a book: their chapters are labelled like any other
    out.append({'property': PID, 'seed': core.h64('C09-bookmatter'), 'swarm': {'book': 'book', 'transports': ['doc']},
                'ops': [{'op': 'BOOKMATTER'}]})
    return out


def _book_source(cls, n):
    chapters = list(range(1, n + 1)) + ['A']
    L = ['\\documentclass{%s}\\newtheorem{thm}{Theorem}[section]\\begin{document}' % cls]
    want = {}

    def refs(tag):
        for c in chapters:
            keys = ['ch', 'se', 'fi'] + (['fj', 'ta', 'eq', 'th'] if c != 'A' else [])
            L.append('%s ' % tag + ' '.join('\\ref{%s%s}' % (k, c) for k in keys) + '.')
            L.append('')
    refs('Forward')
    for c in chapters:
        if c == 'A':
            L.append('\\appendix')
        L.append('\\chapter{C%s}\\label{ch%s}' % (c, c))
        L.append('\\section{S%s}\\label{se%s}' % (c, c))
        L.append('\\begin{figure}F\\caption{X}\\label{fi%s}\\end{figure}' % c)
        want['ch%s' % c], want['se%s' % c], want['fi%s' % c] = str(c), '%s.1' % c, '%s.1' % c
        if c != 'A':
            L.append('\\begin{figure}F\\caption{Y}\\label{fj%s}\\end{figure}' % c)
            L.append('\\begin{table}T\\caption{X}\\label{ta%s}\\end{table}' % c)
            L.append('\\begin{equation}a=b\\label{eq%s}\\end{equation}' % c)
            L.append('\\begin{thm}t\\label{th%s}\\end{thm}' % c)
            want['fj%s' % c], want['ta%s' % c], want['th%s' % c] = '%s.2' % c, '%s.1' % c, '%s.1.1' % c
            if cls == 'book':
                want['eq%s' % c] = '%s.1' % c        # (plasTeX's report class prints the bare equation number: not judged)
    refs('Backward')
    L.append('\\end{document}')
    return '\n'.join(L), want


def execute_book(record, res):
    from plasTeX.TeX import TeX
    viol, log = [], []
    for op in record['ops']:
        if op.get('op') == 'BOOKMATTER':
            titles = {'chP': 'Preface', 'ch1': 'One', 'se1': 'Sone', 'ch2': 'Two', 'chB': 'After', 'seB': 'Sback'}
            refs = ' '.join('\\ref{%s}' % k for k in sorted(titles))
            src = ('\\documentclass{book}\\begin{document}\nFwd %s.\n\n\\frontmatter\\chapter{Preface}\\label{chP} text\n\\mainmatter\n'
                   '\\chapter{One}\\label{ch1}\\section{Sone}\\label{se1}\n\\chapter{Two}\\label{ch2}\n'
                   '\\backmatter\\chapter{After}\\label{chB} text\\section{Sback}\\label{seB}\nBack %s.\n\\end{document}' % (refs, refs))
            tex = TeX()
            tex.input(src)
            doc = tex.parse()
            for r in doc.getElementsByTagName('ref'):
                lab = _str(r.attributes['label'])
                t = r.idref.get('label')
                tid = _str(getattr(t, 'id', None))
                try:
                    ttl = _str(t.attributes['title'].textContent)
                except Exception:
                    ttl = None
                log.append([lab, tid, ttl])
                if tid != lab or ttl != titles[lab]:
                    viol.append({'sig': 'C09|target|wrong-object|book', 'detail': {'label': lab, 'target_id': tid, 'target_title': ttl, 'expected_title': titles[lab]}})
                    break
            continue
        if op.get('op') != 'BOOK':
            continue
        src, want = _book_source(record['swarm']['book'], op['chapters'])
        tex = TeX()
        tex.input(src)
        doc = tex.parse()
        n = 0
        for r in doc.getElementsByTagName('ref'):
            lab = _str(r.attributes['label'])
            t = r.idref.get('label')
            num = _str(t.ref.textContent) if getattr(t, 'ref', None) is not None else None
            tid = _str(getattr(t, 'id', None))
            n += 1
            log.append([lab, tid, num])
            if tid != lab or getattr(t, 'parentNode', None) is None:
                viol.append({'sig': 'C09|target|unresolved|book', 'detail': {'label': lab, 'target_id': tid, 'class': record['swarm']['book']}})
                break
            if lab in want and num != want[lab]:
                viol.append({'sig': 'C09|number|%s' % {'ch': 'chapter', 'se': 'section', 'fi': 'figure', 'fj': 'figure', 'ta': 'table', 'eq': 'equation', 'th': 'theorem'}[lab[:2]],
                             'detail': {'label': lab, 'expected_number': want[lab], 'got': num, 'class': record['swarm']['book']}})
                break
        res['sub_evaluations'] = res.get('sub_evaluations', 0) + n
        res['sub_distinct'] = res.get('sub_distinct', 0) + n
    res['violations'] = viol
    res['probes'] = {'chapter_numbers_two_digits_and_appendix': 1}
    res['nontrivial'] = True
    res['steps'] = len(log)
    res['digest'] = core.hexdigest([record['swarm'], record['ops']])
    res['log_digest'] = core.hexdigest(log)
    return res


def execute(record):
    res = core.empty_result()
    if record['swarm'].get('book'):
        return execute_book(record, res)
    objs = [o for o in record['ops'] if o.get('op') == 'OBJ']
    refs = [o for o in record['ops'] if o.get('op') == 'REF']
    P = record['swarm'].get('P', 4)
    info, viol, log = {}, [], []
    label_of = dict((o['label'], o['m']) for o in objs if o['label'])
    expected = dict((x['m'], label_of.get(x['label'])) for x in refs)
    for tr in record['swarm'].get('transports', ['api', 'doc']):
        maps = []
        for p in range(P):
            ev = schedule(objs, refs, p)
            _probes(ev, objs, refs, info)
            try:
                if tr == 'api':
                    out, ids, extra = run_api(ev)
                else:
                    out, ids, extra = run_doc(ev, objs)
            except Exception as e:
                import traceback
                tb = traceback.format_exc()
                if '/sim/' in tb.strip().splitlines()[-2]:
                    raise
                viol.append({'sig': 'C09|raise|%s|%s' % (tr, type(e).__name__), 'detail': {'order': p, 'traceback': tb[-1200:]}})
                break
            log.append([tr, p, sorted(out.items(), key=lambda t: str(t[0])), extra])
            v = _judge(tr, p, out, ids, extra, objs, refs, expected, label_of)
            if v:
                viol.append(v)
                break
            maps.append(dict((m, (d['target_marker'], d['number'])) for m, d in out.items()))
        if viol:
            break
        # R4 confluence over the recorded history of all P orders
        for p, mp in enumerate(maps[1:], 1):
            if mp != maps[0]:
                diff = sorted(m for m in mp if mp.get(m) != maps[0].get(m))
                viol.append({'sig': 'C09|confluence|%s' % tr, 'detail': {'order': p, 'differs_for': diff,
                                                                          'order0': [maps[0].get(m) for m in diff], 'this': [mp.get(m) for m in diff]}})
                break
        if viol:
            break
    res['violations'] = viol
    res['probes'] = dict((k, 1) for k in info)
    res['steps'] = P * (len(objs) + len(refs)) * 2
    res['nontrivial'] = 'label_before_and_after' in info and 'two_pending_same_label' in info
    res['probes'].pop('label_before_and_after', None)
    res['digest'] = core.hexdigest(record['ops'])
    res['log_digest'] = core.hexdigest(log)
    res['states'] = [core.h64(core.hexdigest([[e[0], e[1]['m']] for e in schedule(objs, refs, p)])) for p in range(P)]
    return res


def _probes(ev, objs, refs, info):
    seen_labels = set()
    pending = {}
    pos = {}
    for e in ev:
        if e[0] == 'REF':
            x = e[1]
            _one(x, seen_labels, pending, info)
        else:
            o, inner = e[1], e[2]
            half = len(inner) // 2
            for x in inner[:half]:
                _one(x, seen_labels, pending, info)
                if x['label'] == o['label']:
                    info['inside_ref'] = 1
            if o['label']:
                seen_labels.add(o['label'])
                if pending.get(o['label'], 0) >= 2:
                    info['two_pending_same_label'] = 1
                if o['kind'] in ('item', 'item2', 'item3'):
                    info['label_on_item'] = 1
                if o['kind'] in ('figure', 'table', 'figure0', 'figurec', 'tablec'):
                    info['label_on_caption'] = 1
                if o['kind'] in ('figurec', 'tablec'):
                    info['label_after_closed_inner_env'] = 1
                if o['kind'] in ('align1', 'align2', 'eqnarray1', 'eqnarray2'):
                    info['label_on_display_row'] = 1
                if o['kind'] == 'captionin':
                    info['label_inside_caption'] = 1
                if o['kind'] in ('subsubsection', 'paragraph', 'sectionstar', 'subsectionstar'):
                    info['label_on_unnumbered_heading'] = 1
                if o['kind'] == 'figure0':
                    info['label_on_empty_caption'] = 1
                if o['kind'] in ('theorem', 'lemma', 'prop'):
                    info['label_on_theorem'] = 1
            else:
                info['unlabelled_between'] = 1
            for x in inner[half:]:
                _one(x, seen_labels, pending, info)
                if x['label'] == o['label']:
                    info['inside_ref'] = 1
    labs = set(o['label'] for o in objs if o['label'])
    for lab in labs:
        if info.get('f:' + lab) and info.get('b:' + lab):
            info['label_before_and_after'] = 1
    for k in [k for k in info if k[:2] in ('f:', 'b:')]:
        del info[k]


def _one(x, seen, pending, info):
    if x.get('place') == 'title':
        info['ref_in_title'] = 1
    if x.get('place') == 'footnote':
        info['ref_in_footnote'] = 1
    if x['page']:
        info['pageref'] = 1
    if x['label'].startswith('nolabel'):
        info['dangling_ref'] = 1
    elif x['label'] in seen:
        info['backward_ref'] = 1
        info['b:' + x['label']] = 1
    else:
        info['forward_ref'] = 1
        info['f:' + x['label']] = 1
        pending[x['label']] = pending.get(x['label'], 0) + 1


NO_NUMBER_CHECK = '<none>'


def expected_numbers(objs):
    """The number LaTeX's article class prints for each generated object (sequential counters; subsections
    numbered within the current section; every generated enumerate has one item)."""
    n = {'section': 0, 'subsection': 0, 'equation': 0, 'figure': 0, 'table': 0, 'theorem': 0, 'prop': 0}
    out = {}
    for o in objs:
        k = o['kind']
        if k == 'prop':
            # numbered within subsection: restarts whenever a subsection (or, transitively, a section) steps
            n['prop'] += 1
            out[o['m']] = '%d.%d.%d' % (n['section'], n['subsection'], n['prop'])
            continue
        if k in ('item', 'item2', 'item3'):
            out[o['m']] = '2' if k == 'item2' else '1'
            continue
        if k in ('subsubsection', 'paragraph', 'sectionstar', 'subsectionstar'):
            # beyond sec-num-depth / starred: no number is printed - and none is CONSUMED: the numbers of the objects
            # that follow are the same as without it
            out[o['m']] = NO_NUMBER_CHECK
            continue
        if k in ('align1', 'align2', 'eqnarray1', 'eqnarray2'):
            n['equation'] += 2
            out[o['m']] = str(n['equation'] - (1 if k.endswith('1') else 0))
            continue
        if k in ('figure0', 'figurec', 'captionin'):
            k = 'figure'
        if k == 'eqaligned':
            k = 'equation'
        if k in ('longtable', 'longtable2'):
            k = 'table'
        if k == 'tablec':
            k = 'table'
        if k == 'lemma':
            k = 'theorem'           # \newtheorem{lem}[thm]{Lemma}: shares the theorem counter
        n[k] += 1
        if k == 'section':
            n['subsection'] = 0
            n['prop'] = 0
            out[o['m']] = str(n[k])
        elif k == 'subsection':
            n['prop'] = 0
            out[o['m']] = '%d.%d' % (n['section'], n[k])
        else:
            out[o['m']] = str(n[k])
    return out


def _judge(tr, p, out, ids, extra, objs, refs, expected, label_of):
    numbers = expected_numbers(objs) if tr == 'doc' else {}
    for x in refs:
        d = out.get(x['m'])
        if d is None:
            return {'sig': 'C09|harness|ref-not-found|%s' % tr, 'detail': {'ref': x, 'order': p, 'have': sorted(str(k) for k in out)}}
        exp = expected[x['m']]
        if exp is not None:
            # R1 exactly that object, carrying the label as its identifier
            if d['target_marker'] != exp:
                cls = 'unresolved' if not d['is_object'] else 'wrong-object'
                return {'sig': 'C09|target|%s|%s' % (cls, tr), 'detail': {'ref': x, 'order': p, 'expected_object': exp, 'got': d}}
            if d['target_id'] != x['label']:
                return {'sig': 'C09|target|id|%s' % tr, 'detail': {'ref': x, 'order': p, 'got': d}}
            # "its printed number is the object's number"
            if tr == 'doc' and numbers.get(exp) != NO_NUMBER_CHECK and d.get('number') != numbers.get(exp):
                kind = [o['kind'] for o in objs if o['m'] == exp][0]
                return {'sig': 'C09|number|%s' % kind, 'detail': {'ref': x, 'order': p, 'object': exp, 'expected_number': numbers.get(exp), 'got': d}}
        else:
            # R2 a dangling reference resolves to no object at all
            if d['is_object'] or d['has_parent']:
                return {'sig': 'C09|dangling|resolved|%s' % tr, 'detail': {'ref': x, 'order': p, 'got': d}}
    # R3 distinct labelled objects carry distinct identifiers (= their labels)
    seen = {}
    for o in objs:
        got = ids.get(o['m'])
        if tr == 'doc':
            if len(got) != 1:
                return {'sig': 'C09|harness|object-not-found|doc', 'detail': {'object': o, 'candidates': len(got)}}
            got = got[0]
        if o['label'] and got != o['label']:
            return {'sig': 'C09|id|label-not-identifier|%s' % tr, 'detail': {'object': o, 'id': got, 'order': p}}
        if got is not None:
            if got in seen:
                return {'sig': 'C09|id|duplicate|%s' % tr, 'detail': {'id': got, 'objects': [seen[got], o['m']]}}
            seen[got] = o['m']
    # no reference is left pending for a label that exists
    for lab in extra['pending_left']:
        if lab in label_of:
            return {'sig': 'C09|pending-left|%s' % tr, 'detail': {'label': lab, 'order': p}}
    return None


def simplify(record):
    ops = record['ops']
    for i, op in enumerate(ops):
        if op.get('op') == 'OBJ' and op['kind'] != 'section':
            yield dict(record, ops=ops[:i] + [dict(op, kind='section')] + ops[i + 1:])
        if op.get('op') == 'REF' and op.get('page'):
            yield dict(record, ops=ops[:i] + [dict(op, page=False)] + ops[i + 1:])
    sw = record['swarm']
    if len(sw.get('transports', [])) > 1:
        for t in sw['transports']:
            yield dict(record, swarm=dict(sw, transports=[t]))
    if sw.get('P', 4) > 2:
        yield dict(record, swarm=dict(sw, P=2))
