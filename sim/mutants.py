"""Catalogue of hand-written mutants for the sensitivity self-test (DESIGN 4.9).

Each mutant is a textual replacement in one file of a scratch copy of /repo.
They are a development tool and a regression test for the machinery (does each
check still catch what it is supposed to catch?), not part of quick/thorough.
Independent, sub-agent written breakages live under /verif/seeded/.
"""

MUTANTS = [
    # ---------------- C15
    ('C15', 'num-not-advanced-on-skipped-duplicate', 'plasTeX/Filenames.py',
     """                    result = string.Template(item).substitute(currentns)
                    if 'num' in currentns:
                        num += 1
                    self.variables.clear()
                    self.variables.update(g)
                    result = self.addExtension(result)
                    if result not in self.invalid:
                        self.invalid[result] = None
                        yield result""",
     """                    result = string.Template(item).substitute(currentns)
                    self.variables.clear()
                    self.variables.update(g)
                    result = self.addExtension(result)
                    if result not in self.invalid:
                        if 'num' in currentns:
                            num += 1
                        self.invalid[result] = None
                        yield result"""),
    ('C15', 'invalid-check-dropped-for-static', 'plasTeX/Filenames.py',
     """                result = self.addExtension(result)
                if result not in self.invalid:
                    self.invalid[result] = None
                    yield result
            except KeyError:
                continue""",
     """                result = self.addExtension(result)
                self.invalid[result] = None
                yield result
            except KeyError:
                continue"""),
    ('C15', 'giveup-bound-removed', 'plasTeX/Filenames.py',
     """                if passes > 100:
                    break""",
     """                if passes > 100 and num > 10**9:
                    break"""),
    ('C15', 'namespace-not-reset-in-wildcard', 'plasTeX/Filenames.py',
     """                    if 'num' in currentns:
                        num += 1
                    self.variables.clear()
                    self.variables.update(g)
                    result = self.addExtension(result)
                    if result not in self.invalid:
                        self.invalid[result] = None
                        yield result""",
     """                    if 'num' in currentns:
                        num += 1
                    result = self.addExtension(result)
                    if result not in self.invalid:
                        self.invalid[result] = None
                        yield result"""),
    # ---------------- reverted repairs (a fixed finding must be reported again if it returns)
    ('C04', 'readKeyword-drops-element', 'plasTeX/TeX.py',
     """                if t.nodeType == Token.ELEMENT_NODE:
                    self.pushToken(t)
                    break
                matched.append(t)""",
     """                if t.nodeType == Token.ELEMENT_NODE:
                    break
                matched.append(t)"""),
    ('C17', 'sys-path-reference-not-copy', 'plasTeX/Context.py',
     """        orig_sys_path = list(sys.path)""",
     """        orig_sys_path = sys.path"""),
    ('C13', 'footnotes-numbering-assumes-mark', 'plasTeX/Base/LaTeX/Sectioning.py',
     """            if f.mark is not None:
                f.mark.attributes['num'] = i+1""",
     """            if True:
                f.mark.attributes['num'] = i+1"""),
    ('C13', 'text-quote-rendered-twice', 'plasTeX/Renderers/Text/__init__.py',
     """        self['\\\\'] = lambda *args: u'\\001'
        output = []""",
     """        self['\\\\'] = lambda *args: u'\\001'
        res = [x.strip() for x in str(node).split(u'\\001')]
        output = []"""),
    ('C20', 'own-paux-by-basename', 'plasTeX/Compile.py',
     """            if os.path.abspath(fname) == ownpaux:""",
     """            if os.path.basename(fname) == pauxname:"""),
    ('C04', 'text-command-not-a-box', 'plasTeX/Base/LaTeX/Math.py',
     """class text(BoxCommand):""",
     """class text(Command):"""),
    # ---------------- C06
    ('C06', 'insertAfter-off-by-one', 'plasTeX/DOM/__init__.py',
     """            if item is refChild:
                self.insert(i+1, newChild)
                return newChild""",
     """            if item is refChild:
                self.insert(i+1 if i+1 < len(self) else i, newChild)
                return newChild"""),
    ('C06', 'fragment-insert-no-increment', 'plasTeX/DOM/__init__.py',
     """            for item in newChild:
                self.insert(i, item, setParent=setParent)
                i += 1
        else:
            self.childNodes.insert(i, newChild)""",
     """            for item in newChild:
                self.insert(i, item, setParent=setParent)
        else:
            self.childNodes.insert(i, newChild)"""),
    ('C06', 'deep-clone-appends-originals-of-grandchildren', 'plasTeX/DOM/__init__.py',
     """            if self.hasChildNodes():
                for x in self.childNodes:
                    node.append(x.cloneNode(deep))""",
     """            if self.hasChildNodes():
                for x in self.childNodes:
                    node.append(x.cloneNode(deep) if x.nodeType != Node.TEXT_NODE else x)"""),
    ('C06', 'nextSibling-equal-text', 'plasTeX/DOM/__init__.py',
     """    next = False
    for i, item in enumerate(self.parentNode):
        if next:
            return item
        if item is self:
            next = True
    return None""",
     """    next = False
    for i, item in enumerate(self.parentNode):
        if next:
            return item
        if item is self or (item.nodeType == Node.TEXT_NODE and item == self):
            next = True
    return None"""),
    # ---------------- C04
    ('C04', 'catcode-without-copy', 'plasTeX/Context.py',
     """        c = self.contexts[-1].categories = self.categories = self.categories[:]""",
     """        c = self.contexts[-1].categories = self.categories"""),
    ('C04', 'get_let-outermost-first', 'plasTeX/Context.py',
     """        for context in reversed(self.contexts):
            try:
                return context.lets[command]""",
     """        for context in self.contexts:
            try:
                return context.lets[command]"""),
    ('C04', 'let-into-global-frame', 'plasTeX/Context.py',
     """            self.top[dest.nodeName] = self[source.nodeName]""",
     """            self.contexts[0][dest.nodeName] = self[source.nodeName]"""),
    ('C04', 'pop-none-pops-through-env', 'plasTeX/Context.py',
     """            while len(self.contexts) > 1:
                if self.contexts[-1].obj is None:
                    self.contexts.pop()
                    break
                self.contexts.pop()
        else:""",
     """            while len(self.contexts) > 1:
                if self.contexts[-1].obj is None:
                    self.contexts.pop()
                    if len(self.contexts) > 3 and self.contexts[-1].obj is None:
                        self.contexts.pop()
                    break
                self.contexts.pop()
        else:"""),
    # ---------------- C09
    ('C09', 'only-first-pending-ref-resolved', 'plasTeX/Context.py',
     """            for obj in self.refs[label]:
                for key, value in list(obj.idref.items()):""",
     """            for obj in self.refs[label][:1]:
                for key, value in list(obj.idref.items()):"""),
    ('C09', 'label-attaches-without-id', 'plasTeX/Context.py',
     """            self.persistentLabels[label] = self.labels[label] = node
            node.id = label""",
     """            self.persistentLabels[label] = self.labels[label] = node
            if label not in self.refs:
                node.id = label"""),
    ('C09', 'ref-registers-unstripped', 'plasTeX/Context.py',
     """        if label not in list(self.refs.keys()):
            self.refs[label] = []
        self.refs[label].append(obj)""",
     """        if label not in list(self.refs.keys()):
            self.refs[label] = []
        elif len(self.refs[label]) > 1:
            self.refs[label].pop()
        self.refs[label].append(obj)"""),
    # ---------------- C20
    ('C20', 'restore-catches-only-keyerror', 'plasTeX/Context.py',
     """            self.warnOnUnrecognized = wou
        except Exception as msg:
            log.warning('Could not load auxiliary information. (%s)' % msg)""",
     """            self.warnOnUnrecognized = wou
        except (KeyError, EOFError) as msg:
            log.warning('Could not load auxiliary information. (%s)' % msg)"""),
    ('C20', 'persist-drops-other-renderers', 'plasTeX/Context.py',
     """                    d[rtype] = {}
            except:""",
     """                    d = {rtype: {}}
            except:"""),
    ('C20', 'persist-reraises', 'plasTeX/Context.py',
     """            except:
                os.remove(filename)
                d = {rtype:{}}""",
     """            except (pickle.UnpicklingError, EOFError):
                os.remove(filename)
                d = {rtype:{}}"""),
    ('C20', 'restore-ignores-renderer', 'plasTeX/Context.py',
     """            try: data = d[rtype]
            except KeyError: return""",
     """            try: data = d[rtype]
            except KeyError: data = list(d.values())[0]"""),
    ('C20', 'title-not-persisted', 'plasTeX/__init__.py',
     """    refAttributes = ['macroName', 'ref', 'title', 'captionName', 'id', 'url']""",
     """    refAttributes = ['macroName', 'ref', 'captionName', 'id', 'url']"""),
    ('C20', 'append-mode', 'plasTeX/Context.py',
     """            with open(filename, 'wb') as fh:
                pickle.dump(d, fh)""",
     """            with open(filename, 'ab') as fh:
                pickle.dump(d, fh)"""),
    ('C20', 'own-paux-restored', 'plasTeX/Compile.py',
     """            if os.path.abspath(fname) == ownpaux:
                continue""",
     """            if fname == pauxname:
                continue"""),
    # ---------------- C17
    ('C17', 'list-depth-back-on-class', 'plasTeX/Base/LaTeX/Lists.py',
     """        userdata = self.ownerDocument.userdata
        depth = userdata.get('List.depth', 0)""",
     """        userdata = List.__dict__.setdefault if False else type(self).__mro__[-3].__dict__.get('_ud') or _UD
        depth = userdata.get('List.depth', 0)"""),
    ('C17', 'ifthen-disableMath-not-reset', 'plasTeX/Packages/ifthen.py',
     """        a = self.parse(tex)
        BeginMath.disableMath = EndMath.disableMath = False""",
     """        a = self.parse(tex)
        EndMath.disableMath = False"""),
    ('C17', 'enable-missing-on-number-path', 'plasTeX/TeX.py',
     """        if type in ['MuGlue','MuSkip']:
            n = self.readMuGlue()
            ParameterCommand.enable()
            return n, n.source""",
     """        if type in ['MuGlue','MuSkip']:
            n = self.readMuGlue()
            return n, n.source"""),
    ('C17', 'packageResources-class-level', 'plasTeX/__init__.py',
     """        self.packageResources = []
        self.rendererdata = dict()""",
     """        self.packageResources = _SHARED_RESOURCES
        self.rendererdata = dict()"""),
    ('C17', 'enable-missing-on-dimen-path', 'plasTeX/TeX.py',
     """        if type in ['Dimen','Length','Dimension']:
            n = self.readDimen()
            ParameterCommand.enable()
            return n, n.source""",
     """        if type in ['Dimen','Length','Dimension']:
            n = self.readDimen()
            return n, n.source"""),
    # ---------------- C13
    ('C13', 'split-level-off-by-one', 'plasTeX/Renderers/__init__.py',
     """            if self.level > level:
                return""",
     """            if self.level >= level and self.level > Node.DOCUMENT_LEVEL:
                return"""),
    ('C13', 'child-file-also-in-parent', 'plasTeX/Renderers/__init__.py',
     """                status.info(' ] ')

                continue""",
     """                status.info(' ] ')

                if len(s) % 7 == 3:
                    s.append(val)
                continue"""),
    ('C13', 'charsub-skipped-for-title', 'plasTeX/Filenames.py',
     """                    if self.charsub and key != 'num':
                        for char in self.charsub[0]:
                            value = value.replace(char, self.charsub[1])
                    currentns[key] = value
                try:
                    # Strip formats
                    item = re.sub(r'(\\$\\{\\w+)\\.\\d+(\\})', r'\\1\\2', item)
                    # Do variable substitution
                    result = string.Template(item).substitute(currentns)
                    if 'num' in currentns:
                        num += 1
                    self.variables.clear()""",
     """                    if self.charsub and key not in ('num', 'title'):
                        for char in self.charsub[0]:
                            value = value.replace(char, self.charsub[1])
                    currentns[key] = value
                try:
                    # Strip formats
                    item = re.sub(r'(\\$\\{\\w+)\\.\\d+(\\})', r'\\1\\2', item)
                    # Do variable substitution
                    result = string.Template(item).substitute(currentns)
                    if 'num' in currentns:
                        num += 1
                    self.variables.clear()"""),
    ('C13', 'filenames-depend-on-existing-files', 'plasTeX/Renderers/__init__.py',
     """        self.newFilename = Filenames(config['files'].get('filename'),
                                     (config['files']['bad-chars'],
                                      config['files']['bad-chars-sub']),
                                     {'jobname':document.userdata.get('jobname', '')}, self.fileExtension)""",
     """        self.newFilename = Filenames(config['files'].get('filename'),
                                     (config['files']['bad-chars'],
                                      config['files']['bad-chars-sub']),
                                     {'jobname':document.userdata.get('jobname', '')}, self.fileExtension,
                                     invalid=dict((f, None) for f in os.listdir('.') if f.startswith('sect')))"""),
    # ---------------- reverted repairs of the continuation session
    ('C13', 'text-table-shrink-stale-index', 'plasTeX/Renderers/Text/__init__.py',
     """                maxwidths[index] -= 1
                outwidths[index] -= 1
                if maxwidths[index] == minwidths[index]:
                    maxwidths[index] = -1""",
     """                maxwidths[i] -= 1
                outwidths[i] -= 1
                if maxwidths[i] == minwidths[i]:
                    maxwidths[i] = -1"""),
    ('C17', 'natbib-aliases-back-on-class', 'plasTeX/Packages/natbib.py',          # (the shared table itself is in EXTRA below)
     """        aliases[self.attributes['key']] = self.attributes['text']""",
     """        aliases[self.attributes['key']] = _ALIASES[self.attributes['key']] = self.attributes['text']"""),
    ('C17', 'natbib-sectionbib-back-on-class', 'plasTeX/Packages/natbib.py',
     """            bibunit['level'] = Base.section.level""",
     """            Base.bibliography.level = bibunit['level'] = Base.section.level"""),
]

# a helper that the 'list-depth-back-on-class' mutant needs (module-level dict shared by all documents)
EXTRA = {
    'list-depth-back-on-class': ('plasTeX/Base/LaTeX/Lists.py', "\n_UD = {}\n"),
    'packageResources-class-level': ('plasTeX/__init__.py', "\n_SHARED_RESOURCES = []\n"),
    'natbib-aliases-back-on-class': ('plasTeX/Packages/natbib.py',
                                     "\n_ALIASES = {}\n"
                                     "citetalias.citation = lambda self: citet.citation(self, text=_ALIASES.get(self.attributes['bibkeys'][0], ''))\n"
                                     "citepalias.citation = lambda self: citep.citation(self, text=_ALIASES.get(self.attributes['bibkeys'][0], ''))\n"),
}
