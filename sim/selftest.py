"""Self tests of the machinery (filled in below)."""
def setup():
    import plasTeX, jinja2
    from sim import core
    print('setup ok: plasTeX from', plasTeX.__file__)
    return 0
