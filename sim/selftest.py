"""Self tests of the machinery: determinism, sensitivity (mutants), findings."""
import json
import multiprocessing
import os
import shutil
import subprocess
import sys
import time
from concurrent.futures import ProcessPoolExecutor

from . import core


def setup():
    import plasTeX
    import jinja2           # noqa
    for pid in sorted(core.PROPS):
        try:
            core.load_prop(pid)
        except ModuleNotFoundError:
            pass
    if not os.path.realpath(plasTeX.__file__).startswith(os.path.realpath(core.REPO)):
        print('HARNESS-ERROR plasTeX imported from %s, not from %s' % (plasTeX.__file__, core.REPO))
        return core.EXIT_HARNESS
    print('setup ok: plasTeX from', plasTeX.__file__)
    return 0


# --------------------------------------------------------------------------
# determinism: same seed -> same complete event log, whatever the worker,
# pool size, interpreter or string-hash seed

def _digest_batch(pid, base_seed, tier, indices):
    out = core._worker_batch(pid, base_seed, tier, indices, 0)
    sigs = dict((v['index'], sorted(x['sig'] for x in v['violations'])) for v in out['viol'])
    return dict((i, [out['logdig'].get(i), sigs.get(i, [])]) for i in indices), out['errors']


def compute_digests(pid, base_seed, tier, n, workers):
    prop = core.load_prop(pid)
    if hasattr(prop, 'prepare'):
        prop.prepare()
    res, errors = {}, []
    ctx = multiprocessing.get_context('fork')
    chunk = max(1, n // (workers * 2))
    with ProcessPoolExecutor(max_workers=workers, mp_context=ctx) as ex:
        futs = [ex.submit(_digest_batch, pid, base_seed, tier, list(range(s, min(n, s + chunk))))
                for s in range(0, n, chunk)]
        for f in futs:
            d, e = f.result()
            res.update(d)
            errors.extend(e)
    return res, errors


def digests_cli(pid, base_seed, tier, n, workers):
    res, errors = compute_digests(pid, base_seed, tier, n, workers)
    print('@@DIGESTS@@' + json.dumps({'digests': dict((str(k), v) for k, v in res.items()), 'errors': errors}))
    return 0


def _sub_digests(pid, base_seed, tier, n, workers, hashseed):
    env = dict(os.environ)
    env['PYTHONHASHSEED'] = str(hashseed)
    p = subprocess.run([core.PYTHON, os.path.join(core.VERIF, 'bin', 'verify'), '_digests', pid, '--runs', str(n),
                        '--workers', str(workers), '--seed', str(base_seed), '--tier', tier],
                       capture_output=True, text=True, env=env, timeout=3000)
    for line in p.stdout.splitlines():
        if line.startswith('@@DIGESTS@@'):
            return json.loads(line[len('@@DIGESTS@@'):])
    raise core.HarnessError('digest subprocess failed: %s' % (p.stdout + p.stderr)[-1500:])


DET_N = {'quick': {'C04': 400, 'C06': 400, 'C09': 200, 'C13': 24, 'C15': 400, 'C17': 24, 'C20': 24},
         'thorough': {'C04': 20000, 'C06': 20000, 'C09': 4000, 'C13': 200, 'C15': 20000, 'C17': 200, 'C20': 200}}


def determinism(pids, tier, base_seed):
    rc = 0
    for pid in pids:
        if pid not in core.PROPS:
            continue
        try:
            core.load_prop(pid)
        except ModuleNotFoundError:
            continue
        n = DET_N[tier].get(pid, 8)
        t0 = time.monotonic()
        a = _sub_digests(pid, base_seed, tier, n, 16, 0)
        b = _sub_digests(pid, base_seed, tier, n, 16, 0)        # same configuration twice
        c = _sub_digests(pid, base_seed, tier, n, 1 if n <= 400 else 3, 0)      # another pool size
        d = _sub_digests(pid, base_seed, tier, n, 7, 424242)     # fresh interpreter, another hash seed
        mism = 0
        for name, other in (('repeat', b), ('pool-size', c), ('hashseed', d)):
            for k, v in a['digests'].items():
                if other['digests'].get(k) != v:
                    mism += 1
                    if mism <= 5:
                        print('DETERMINISM-MISMATCH property=%s index=%s condition=%s %s != %s'
                              % (pid, k, name, v, other['digests'].get(k)))
        errs = sum(len(x['errors']) for x in (a, b, c, d))
        print('determinism %s: seeds=%d conditions=4 mismatches=%d harness_errors=%d wall=%.1fs'
              % (pid, n, mism, errs, time.monotonic() - t0))
        if mism or errs:
            rc = core.EXIT_HARNESS
        path = os.path.join(core.VERIF, 'evidence', 'determinism_%s.json' % pid)
        os.makedirs(os.path.dirname(path), exist_ok=True)
        with open(path, 'w') as f:
            json.dump({'property': pid, 'tier': tier, 'seed': base_seed, 'seeds_checked': n,
                       'conditions': ['16 workers PYTHONHASHSEED=0', 'same again', '1-3 workers',
                                      '7 workers PYTHONHASHSEED=424242 (fresh interpreter)'],
                       'mismatches': mism, 'harness_errors': errs}, f, indent=1)
            f.write('\n')
    return rc


# --------------------------------------------------------------------------
# every OPEN finding must still reproduce from its committed replay file

def findings():
    rc = 0
    for e in core.load_known():
        if e.get('status') != 'open':
            continue
        path = os.path.join(core.VERIF, e['replay'])
        prop = core.load_prop(e['property'])
        if hasattr(prop, 'prepare'):
            prop.prepare()
        with open(path) as f:
            rp = json.load(f)
        res = core.execute_guarded(prop, rp['record'], timeout=1800)
        ok = any(v['sig'] == rp['signature'] for v in res['violations'])
        print('finding %s %s: %s' % (e['property'], e.get('signature') or e.get('group'), 'reproduces' if ok else 'STALE (no longer reproduces)'))
        if not ok:
            rc = core.EXIT_HARNESS
    return rc


# --------------------------------------------------------------------------
# sensitivity: every catalogued mutant must be caught by its property's quick check

def _scratch_copy(tag):
    dst = '/tmp/plastex_mut_%d_%s' % (os.getpid(), tag)
    if os.path.exists(dst):
        shutil.rmtree(dst)
    subprocess.run(['rsync', '-a', '--exclude', '.git', '--exclude', '__pycache__', '--exclude', 'buildir',
                    core.REPO.rstrip('/') + '/', dst + '/'], check=True)
    return dst


def run_check_on(repo, pid, runs=None, tier='quick', seed=None, out=None, timeout=2400):
    env = dict(os.environ)
    env['VERIF_REPO'] = repo
    env['VERIF_OUT'] = out or (repo + '.out')
    env['PYTHONHASHSEED'] = '0'
    env['VERIF_MAX_REPORT'] = '2'
    cmd = [core.PYTHON, os.path.join(core.VERIF, 'bin', 'verify'), pid, '--tier', tier]
    if runs:
        cmd += ['--runs', str(runs)]
    if seed is not None:
        cmd += ['--seed', str(seed)]
    p = subprocess.run(cmd, capture_output=True, text=True, env=env, timeout=timeout)
    return p.returncode, p.stdout + p.stderr


def sensitivity(pids, base_seed, only=None):
    from . import mutants
    rc = 0
    results = []
    for pid, name, relpath, old, new in mutants.MUTANTS:
        if pid not in pids or (only and name not in only):
            continue
        repo = _scratch_copy(name[:20])
        out = repo + '.out'
        try:
            path = os.path.join(repo, relpath)
            src = open(path).read()
            if src.count(old) != 1:
                print('sensitivity %s %-44s MUTANT-DOES-NOT-APPLY (%d matches)' % (pid, name, src.count(old)))
                rc = core.EXIT_HARNESS
                continue
            src = src.replace(old, new)
            if name in mutants.EXTRA and mutants.EXTRA[name][0] == relpath:
                src += mutants.EXTRA[name][1]
            open(path, 'w').write(src)
            t0 = time.monotonic()
            code, text = run_check_on(repo, pid, seed=base_seed, out=out)
            sigs = [ln.split('signature:')[1].strip() for ln in text.splitlines() if 'signature:' in ln]
            verdict = 'caught' if code == 1 and 'VIOLATION property=%s' % pid in text else \
                ('HARNESS-ERROR' if code == 2 else 'MISSED')
            print('sensitivity %s %-44s %s in %.0fs %s' % (pid, name, verdict, time.monotonic() - t0, sigs[:2]))
            if verdict != 'caught':
                rc = core.EXIT_HARNESS
                print(text[-800:])
            results.append({'property': pid, 'mutant': name, 'verdict': verdict, 'signatures': sigs[:3]})
        finally:
            shutil.rmtree(repo, ignore_errors=True)
            shutil.rmtree(out, ignore_errors=True)
    path = os.path.join(core.VERIF, 'evidence', 'sensitivity.json')
    old = {}
    if os.path.exists(path):
        try:
            old = dict(((r['property'], r['mutant']), r) for r in json.load(open(path))['results'])
        except Exception:
            old = {}
    for r in results:
        old[(r['property'], r['mutant'])] = r
    current = set((pid, name) for pid, name, _, _, _ in mutants.MUTANTS)
    old = dict((k, v) for k, v in old.items() if k in current)        # (entries of withdrawn mutants are dropped)
    with open(path, 'w') as f:
        json.dump({'results': sorted(old.values(), key=lambda r: (r['property'], r['mutant']))}, f, indent=1)
        f.write('\n')
    return rc
